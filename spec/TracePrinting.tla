---------------------------- MODULE TracePrinting ----------------------------
EXTENDS Printing, Json, IOUtils
TraceLog == ndJsonDeserialize(IOEnv.TRACE)
VerdictFile == IOEnv.VERDICT
VARIABLES l, viol, done
vars == <<l, viol, done>>

Mis(ev) ==
  IF ev.kind = "embed"
  THEN IF ev.out = ev.pre \o Render(ev.val) \o ev.suf THEN <<>>
       ELSE <<[field |-> "embedded", exp |-> ev.pre \o Render(ev.val) \o ev.suf, got |-> ev.out]>>
  ELSE (IF Specified(ev.val, ev.before) /\ ev.out # Render(ev.val)
        THEN <<[field |-> "output", exp |-> Render(ev.val), got |-> ev.out]>> ELSE <<>>)
    \o (IF Leafish(ev.val) /\ ev.after # ev.before
        THEN <<[field |-> "stream-state", exp |-> ToString(ev.before), got |-> ToString(ev.after)]>> ELSE <<>>)
    \o (IF ev.val.k = "opaque" /\ ev.bytes # OpBytes(ev.val.v)
        THEN <<[field |-> "harness-bytes", exp |-> ToString(OpBytes(ev.val.v)), got |-> ToString(ev.bytes)]>> ELSE <<>>)

TraceInit == l = 1 /\ viol = <<>> /\ done = FALSE
Consume ==
  /\ l <= Len(TraceLog) /\ l' = l + 1 /\ done' = done
  /\ LET ev == TraceLog[l]  ms == Mis(ev) IN
     viol' = IF Len(viol) < 100 THEN viol \o [i \in 1..Len(ms) |-> ms[i] @@ [line |-> l, id |-> ev.id]] ELSE viol
Finish ==
  /\ l = Len(TraceLog) + 1 /\ ~done /\ done' = TRUE /\ UNCHANGED <<l, viol>>
  /\ ndJsonSerialize(VerdictFile, viol \o <<[field |-> "END", exp |-> "", got |-> Len(TraceLog), line |-> l, id |-> -1]>>)
TraceNext == Consume \/ Finish
TraceSpec == TraceInit /\ [][TraceNext]_vars
=============================================================================
