\* MCCore.tla
SPECIFICATION Spec
CONSTANTS
  NSlot = 3
  NMock = 1
  NSeq = 2
  NObj = 1
  NMon = 1
  NTr = 1
  AsIs_D1 = FALSE
  AsIs_D4 = FALSE
  MShapes = {2, 5, 7}
  MArgs = {0}
  MTermIds = {1}
  MBoundIds = {1, 2, 3, 6}
  MFns = {1}
  MaxCreate = 4
  MaxN = 3
  UseMove = FALSE
  UseDestroyMock = FALSE
  UseDestroySeq = FALSE
  UseMonitors = FALSE
  UseWith = FALSE
  UseTracers = FALSE
  UseReporters = FALSE
CONSTRAINT Bounded
INVARIANT Inv_All
CHECK_DEADLOCK FALSE
