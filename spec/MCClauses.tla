------------------------------ MODULE MCClauses ------------------------------
(* TLC explores the reachable LEGAL typestates (BFS, so `path` is a shortest legal clause  *)
(* sequence to each state) and prints, for every state, the verdict of the statement that  *)
(* extends the path by each clause: one implementation test per transition of the graph.   *)
EXTENDS Clauses, Json, TLCExt
CONSTANTS MaxLen
VARIABLES s, head, path
vars == <<s, head, path>>
Init == \E k \in Kinds, h \in Heads : s = Start(k, h) /\ head = h /\ path = <<>>
Next == \E c \in Clauses :
          /\ Len(path) < MaxLen
          /\ Apply(s, c).msg = ""
          /\ s' = Apply(s, c).st /\ head' = head /\ path' = Append(path, c)
Spec == Init /\ [][Next]_vars
View == <<s, head>>
ClauseSeq == <<"WITH", "SE", "RET", "THROW", "T2", "T0", "TINV", "TAL", "RT", "SEQ", "CORET", "COTHROW", "COYIELD">>
Plan == [k |-> s.k, head |-> head, path |-> path, endmsg |-> EndMsg(s),
         next |-> [i \in 1..Len(ClauseSeq) |->
                     [c |-> ClauseSeq[i], msgs |-> Verdict(s.k, head, Append(path, ClauseSeq[i]))]]]
Emit == PrintT(<<"PLAN", ToJson(Plan)>>)
\* sanity of the machine itself
TypeOk == s.k \in Kinds /\ (s.H0 => s.LS) /\ (s.CR => s.k # "void") /\ (s.R => s.k # "void")
=============================================================================
