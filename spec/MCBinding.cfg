\* MCBinding.tla
SPECIFICATION BSpec
CONSTRAINT Bounded
INVARIANT CaptureLaw
INVARIANT WriteLaw
INVARIANT ParamLaw
CHECK_DEADLOCK FALSE
