\* MCCore.tla
SPECIFICATION Spec
CONSTANTS
  NSlot = 2
  NMock = 1
  NSeq = 1
  NObj = 1
  NMon = 1
  NTr = 3
  AsIs_D1 = FALSE
  AsIs_D4 = FALSE
  MShapes = {2}
  MArgs = {0}
  MTermIds = {1}
  MBoundIds = {1, 2}
  MFns = {1}
  MaxCreate = 5
  MaxN = 3
  UseMove = FALSE
  UseDestroyMock = FALSE
  UseDestroySeq = FALSE
  UseMonitors = FALSE
  UseWith = FALSE
  UseTracers = TRUE
  UseReporters = FALSE
CONSTRAINT Bounded
INVARIANT Inv_All
CHECK_DEADLOCK FALSE
