\* MCConc.tla
SPECIFICATION Spec
CONSTANTS
  NSlot = 2
  NMock = 1
  NSeq = 1
  NObj = 1
  NMon = 1
  NTr = 1
  AsIs_D1 = FALSE
  AsIs_D4 = FALSE
  AsIs_D17 = FALSE
  AsIs_D7 = TRUE
  Scenarios = {0, 1}
  GenLen = 2
INVARIANT Linearizable
CHECK_DEADLOCK FALSE
