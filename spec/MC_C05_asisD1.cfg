\* MCCore.tla
SPECIFICATION Spec
CONSTANTS
  NSlot = 2
  NMock = 1
  NSeq = 1
  NObj = 1
  NMon = 1
  NTr = 1
  AsIs_D1 = TRUE
  AsIs_D4 = FALSE
  MShapes = {5}
  MArgs = {0, 1}
  MTermIds = {2, 3}
  MBoundIds = {2, 3, 5}
  MFns = {1}
  MaxCreate = 2
  MaxN = 3
  UseMove = FALSE
  UseDestroyMock = FALSE
  UseDestroySeq = FALSE
  UseMonitors = FALSE
  UseWith = FALSE
  UseTracers = FALSE
  UseReporters = FALSE
CONSTRAINT Bounded
INVARIANT Inv_All
CHECK_DEADLOCK FALSE
