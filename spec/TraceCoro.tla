------------------------------ MODULE TraceCoro ------------------------------
EXTENDS Coro, Json, IOUtils
TraceLog == ndJsonDeserialize(IOEnv.TRACE)
VerdictFile == IOEnv.VERDICT
VARIABLES l, st, bad, segid, viol, done
vars == <<l, st, bad, segid, viol, done>>
V(field, e, g) == [field |-> field, exp |-> ToString(e), got |-> ToString(g)]
Chk(ok, field, e, g) == IF ok THEN <<>> ELSE <<V(field, e, g)>>
InstOf(ev) == IF ev.e \in {"ccall", "resume"} THEN ev.a[1] ELSE 0
\* op cargs k a1..a15: the clause evaluated during the call of an eagerly started 15-parameter coroutine computes
\* sum(i * _i): a positional name bound to the wrong argument changes the sum (the arguments are pairwise different)
RECURSIVE WSum(_, _)
WSum(a, i) == IF i > 15 THEN 0 ELSE i * a[i + 1] + WSum(a, i + 1)
ArgsMis(ev) ==
  LET k == ev.a[1]  s == WSum(ev.a, 1)
      want == CASE k \in {1, 4} -> [st |-> 2, cur |-> 0, val |-> s, ex |-> ""]
                [] k = 2 -> [st |-> 3, cur |-> 0, val |-> 0, ex |-> ToString(s)]
                [] OTHER -> [st |-> 1, cur |-> s, val |-> 0, ex |-> ""]
  IN  Chk(ev.skip = 0 /\ ev.acc = 1, "accepted-at-call", 1, <<ev.skip, ev.acc>>)
   \o Chk(ev.ist = want, "positional-names", want, ev.ist)

Mis(r, ev) ==
  LET o == r.obs  post == r.st  i == InstOf(ev)
      wantst == IF i \in Insts /\ o.acc = 1 /\ post.inst[i].alive /\ ~(ev.e = "ccall" /\ o.skip = 1) THEN Status(post.inst[i]) ELSE NoStatus
  IN  Chk(ev.skip = o.skip, "skip", o.skip, ev.skip)
   \o Chk(ev.acc = o.acc, "accepted-at-call", o.acc, ev.acc)
   \o Chk(ev.thr = o.thr, "exception-at-call", o.thr, ev.thr)
   \* a report whose wording the normaliser does not know (kind "other") is compared by severity only
   \o Chk(Len(ev.reps) = Len(o.reps) /\ \A ri \in 1..Len(o.reps) :
             ev.reps[ri].sev = o.reps[ri].sev /\ (ev.reps[ri].kind = "other" \/ ev.reps[ri].kind = o.reps[ri].kind),
          "reports", o.reps, ev.reps)
   \o Chk(ev.noks = o.noks, "ok-reports", o.noks, ev.noks)
   \o Chk(ev.cl = o.cl, "clause-evaluation", o.cl, ev.cl)
   \o Chk(ev.ist = wantst, "coroutine-state", wantst, ev.ist)
   \o Chk(ev.fl = Flags(post), "flags", Flags(post), ev.fl)
Stamp(ms, line, seg) == [i \in 1..Len(ms) |-> ms[i] @@ [line |-> line, seg |-> seg]]
TraceInit == l = 1 /\ st = InitSt /\ bad = FALSE /\ segid = "" /\ viol = <<>> /\ done = FALSE
Consume ==
  /\ l <= Len(TraceLog) /\ l' = l + 1 /\ done' = done
  /\ LET ev == TraceLog[l] IN
     CASE ev.e = "Seg" -> st' = InitSt /\ bad' = FALSE /\ segid' = ev.id /\ viol' = viol
       [] ev.e = "EndSeg" -> /\ UNCHANGED <<st, bad, segid>>
                             /\ viol' = IF (ev.exit # 0 \/ ev.sig # 0 \/ ev.san # "") /\ Len(viol) < 200
                                        THEN viol \o Stamp(<<V("process", "clean exit", <<ev.exit, ev.sig, ev.san>>)>>, l, segid) ELSE viol
       [] ev.e = "Fin" -> UNCHANGED <<st, bad, segid, viol>>
       [] ev.e = "Terminate" -> /\ UNCHANGED <<st, segid>> /\ bad' = TRUE
                                /\ viol' = viol \o Stamp(<<V("terminate", "no std::terminate", "terminate")>>, l, segid)
       [] ev.e = "cargs" -> IF bad THEN UNCHANGED <<st, bad, segid, viol>>
                   ELSE LET ms == ArgsMis(ev) IN
                        /\ UNCHANGED <<st, segid>> /\ bad' = (ms # <<>>)
                        /\ viol' = IF Len(viol) < 200 THEN viol \o Stamp(ms, l, segid) ELSE viol
       [] OTHER -> IF bad THEN UNCHANGED <<st, bad, segid, viol>>
                   ELSE LET r == Step(st, ev)  ms == Mis(r, ev) IN
                        /\ st' = r.st /\ segid' = segid /\ bad' = (ms # <<>>)
                        /\ viol' = IF Len(viol) < 200 THEN viol \o Stamp(ms, l, segid) ELSE viol
Finish ==
  /\ l = Len(TraceLog) + 1 /\ ~done /\ done' = TRUE /\ UNCHANGED <<l, st, bad, segid, viol>>
  /\ ndJsonSerialize(VerdictFile, viol \o <<[field |-> "END", exp |-> ToString(Len(TraceLog)), got |-> ToString(l - 1), line |-> l, seg |-> ""]>>)
TraceNext == Consume \/ Finish
TraceSpec == TraceInit /\ [][TraceNext]_vars
=============================================================================
