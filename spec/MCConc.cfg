\* MCConc.tla
SPECIFICATION Spec
CONSTANTS
  NSlot = 2
  NMock = 1
  NSeq = 1
  NObj = 1
  NMon = 1
  NTr = 1
  AsIs_D1 = FALSE
  AsIs_D4 = FALSE
  AsIs_D17 = FALSE
  AsIs_D7 = FALSE
  Scenarios = {0, 1, 2, 3, 4, 5}
  GenLen = 2
INVARIANT Linearizable
INVARIANT LockDiscipline
CHECK_DEADLOCK FALSE
