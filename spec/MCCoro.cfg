\* MCCoro.tla
SPECIFICATION Spec
CONSTANTS
  NSlot = 2
  NInst = 2
  MKinds = {1, 3}
  MaxNy = 2
  MaxCreate = 2
  MBn = 2
CONSTRAINT Bounded
INVARIANT Inv_Order
INVARIANT Inv_Bounds
CHECK_DEADLOCK FALSE
