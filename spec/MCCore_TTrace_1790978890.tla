---- MODULE MCCore_TTrace_1790978890 ----
EXTENDS MCCore, Sequences, TLCExt, Toolbox, Naturals, TLC

_expression ==
    LET MCCore_TEExpression == INSTANCE MCCore_TEExpression
    IN MCCore_TEExpression!expression
----

_trace ==
    LET MCCore_TETrace == INSTANCE MCCore_TETrace
    IN MCCore_TETrace!trace
----

_inv ==
    ~(
        TLCGet("level") = Len(_TETrace)
        /\
        st = ([mon |-> <<[alive |-> FALSE, died |-> FALSE, n |-> 0, obj |-> 0, qs |-> <<>>, nq |-> 0]>>, exp |-> <<[alive |-> TRUE, n |-> 0, hi |-> 99, f |-> 1, qs |-> <<1>>, lo |-> 0, rep |-> FALSE, sh |-> 5, linked |-> TRUE, pt |-> <<<<1, 1>>>>, wt |-> <<>>, seb |-> <<>>, retk |-> 1, retv |-> 100, flo |-> 0, fhi |-> 99, allq |-> <<1>>], [alive |-> TRUE, n |-> 1, hi |-> 2, f |-> 1, qs |-> <<1>>, lo |-> 2, rep |-> FALSE, sh |-> 5, linked |-> TRUE, pt |-> <<<<1, 0>>>>, wt |-> <<>>, seb |-> <<>>, retk |-> 1, retv |-> 200, flo |-> 2, fhi |-> 2, allq |-> <<1>>]>>, obj |-> <<[alive |-> FALSE, mons |-> <<>>]>>, act |-> (0 :> <<<<2, 1>>, <<>>, <<>>, <<>>>>), pend |-> <<<<1, 2>>>>, sat |-> (0 :> <<<<>>, <<>>, <<>>, <<>>>>), rep |-> 1, malive |-> (0 :> TRUE), qalive |-> <<TRUE>>, unspec |-> FALSE, trk |-> <<>>, okrep |-> 1])
        /\
        g = ([clock |-> 2, stamp |-> (1 :> 1 @@ 2 :> 2 @@ 101 :> 0), passed |-> (1 :> {1} @@ 2 :> {} @@ 101 :> {}), named |-> <<FALSE, FALSE>>, eol |-> <<0, 0>>, owner |-> <<0, 0>>, tstamp |-> <<0>>, rinst |-> 1, okinst |-> 1])
    )
----

_init ==
    /\ g = _TETrace[1].g
    /\ st = _TETrace[1].st
----

_next ==
    /\ \E i,j \in DOMAIN _TETrace:
        /\ \/ /\ j = i + 1
              /\ i = TLCGet("level")
        /\ g  = _TETrace[i].g
        /\ g' = _TETrace[j].g
        /\ st  = _TETrace[i].st
        /\ st' = _TETrace[j].st

\* Uncomment the ASSUME below to write the states of the error trace
\* to the given file in Json format. Note that you can pass any tuple
\* to `JsonSerialize`. For example, a sub-sequence of _TETrace.
    \* ASSUME
    \*     LET J == INSTANCE Json
    \*         IN J!JsonSerialize("MCCore_TTrace_1790978890.json", _TETrace)

=============================================================================

 Note that you can extract this module `MCCore_TEExpression`
  to a dedicated file to reuse `expression` (the module in the 
  dedicated `MCCore_TEExpression.tla` file takes precedence 
  over the module `MCCore_TEExpression` below).

---- MODULE MCCore_TEExpression ----
EXTENDS MCCore, Sequences, TLCExt, Toolbox, Naturals, TLC

expression == 
    [
        \* To hide variables of the `MCCore` spec from the error trace,
        \* remove the variables below.  The trace will be written in the order
        \* of the fields of this record.
        g |-> g
        ,st |-> st
        
        \* Put additional constant-, state-, and action-level expressions here:
        \* ,_stateNumber |-> _TEPosition
        \* ,_gUnchanged |-> g = g'
        
        \* Format the `g` variable as Json value.
        \* ,_gJson |->
        \*     LET J == INSTANCE Json
        \*     IN J!ToJson(g)
        
        \* Lastly, you may build expressions over arbitrary sets of states by
        \* leveraging the _TETrace operator.  For example, this is how to
        \* count the number of times a spec variable changed up to the current
        \* state in the trace.
        \* ,_gModCount |->
        \*     LET F[s \in DOMAIN _TETrace] ==
        \*         IF s = 1 THEN 0
        \*         ELSE IF _TETrace[s].g # _TETrace[s-1].g
        \*             THEN 1 + F[s-1] ELSE F[s-1]
        \*     IN F[_TEPosition - 1]
    ]

=============================================================================



Parsing and semantic processing can take forever if the trace below is long.
 In this case, it is advised to uncomment the module below to deserialize the
 trace from a generated binary file.

\*
\*---- MODULE MCCore_TETrace ----
\*EXTENDS MCCore, IOUtils, TLC
\*
\*trace == IODeserialize("MCCore_TTrace_1790978890.bin", TRUE)
\*
\*=============================================================================
\*

---- MODULE MCCore_TETrace ----
EXTENDS MCCore, TLC

trace == 
    <<
    ([st |-> [mon |-> <<[alive |-> FALSE, died |-> FALSE, n |-> 0, obj |-> 0, qs |-> <<>>, nq |-> 0]>>, exp |-> <<[alive |-> FALSE, n |-> 0, hi |-> 0, f |-> 0, qs |-> <<>>, lo |-> 0, rep |-> FALSE, sh |-> 0, linked |-> FALSE, pt |-> <<>>, wt |-> <<>>, seb |-> <<>>, retk |-> 0, retv |-> 0, flo |-> 0, fhi |-> 0, allq |-> <<>>], [alive |-> FALSE, n |-> 0, hi |-> 0, f |-> 0, qs |-> <<>>, lo |-> 0, rep |-> FALSE, sh |-> 0, linked |-> FALSE, pt |-> <<>>, wt |-> <<>>, seb |-> <<>>, retk |-> 0, retv |-> 0, flo |-> 0, fhi |-> 0, allq |-> <<>>]>>, obj |-> <<[alive |-> FALSE, mons |-> <<>>]>>, act |-> (0 :> <<<<>>, <<>>, <<>>, <<>>>>), pend |-> <<<<>>>>, sat |-> (0 :> <<<<>>, <<>>, <<>>, <<>>>>), rep |-> 1, malive |-> (0 :> TRUE), qalive |-> <<TRUE>>, unspec |-> FALSE, trk |-> <<>>, okrep |-> 1],g |-> [clock |-> 0, stamp |-> (1 :> 0 @@ 2 :> 0 @@ 101 :> 0), passed |-> (1 :> {} @@ 2 :> {} @@ 101 :> {}), named |-> <<FALSE, FALSE>>, eol |-> <<0, 0>>, owner |-> <<-1, -1>>, tstamp |-> <<0>>, rinst |-> 1, okinst |-> 1]]),
    ([st |-> [mon |-> <<[alive |-> FALSE, died |-> FALSE, n |-> 0, obj |-> 0, qs |-> <<>>, nq |-> 0]>>, exp |-> <<[alive |-> TRUE, n |-> 0, hi |-> 99, f |-> 1, qs |-> <<1>>, lo |-> 0, rep |-> FALSE, sh |-> 5, linked |-> TRUE, pt |-> <<<<1, 1>>>>, wt |-> <<>>, seb |-> <<>>, retk |-> 1, retv |-> 100, flo |-> 0, fhi |-> 99, allq |-> <<1>>], [alive |-> FALSE, n |-> 0, hi |-> 0, f |-> 0, qs |-> <<>>, lo |-> 0, rep |-> FALSE, sh |-> 0, linked |-> FALSE, pt |-> <<>>, wt |-> <<>>, seb |-> <<>>, retk |-> 0, retv |-> 0, flo |-> 0, fhi |-> 0, allq |-> <<>>]>>, obj |-> <<[alive |-> FALSE, mons |-> <<>>]>>, act |-> (0 :> <<<<1>>, <<>>, <<>>, <<>>>>), pend |-> <<<<1>>>>, sat |-> (0 :> <<<<>>, <<>>, <<>>, <<>>>>), rep |-> 1, malive |-> (0 :> TRUE), qalive |-> <<TRUE>>, unspec |-> FALSE, trk |-> <<>>, okrep |-> 1],g |-> [clock |-> 1, stamp |-> (1 :> 1 @@ 2 :> 0 @@ 101 :> 0), passed |-> (1 :> {} @@ 2 :> {} @@ 101 :> {}), named |-> <<FALSE, FALSE>>, eol |-> <<0, 0>>, owner |-> <<0, -1>>, tstamp |-> <<0>>, rinst |-> 1, okinst |-> 1]]),
    ([st |-> [mon |-> <<[alive |-> FALSE, died |-> FALSE, n |-> 0, obj |-> 0, qs |-> <<>>, nq |-> 0]>>, exp |-> <<[alive |-> TRUE, n |-> 0, hi |-> 99, f |-> 1, qs |-> <<1>>, lo |-> 0, rep |-> FALSE, sh |-> 5, linked |-> TRUE, pt |-> <<<<1, 1>>>>, wt |-> <<>>, seb |-> <<>>, retk |-> 1, retv |-> 100, flo |-> 0, fhi |-> 99, allq |-> <<1>>], [alive |-> TRUE, n |-> 0, hi |-> 2, f |-> 1, qs |-> <<1>>, lo |-> 2, rep |-> FALSE, sh |-> 5, linked |-> TRUE, pt |-> <<<<1, 0>>>>, wt |-> <<>>, seb |-> <<>>, retk |-> 1, retv |-> 200, flo |-> 2, fhi |-> 2, allq |-> <<1>>]>>, obj |-> <<[alive |-> FALSE, mons |-> <<>>]>>, act |-> (0 :> <<<<2, 1>>, <<>>, <<>>, <<>>>>), pend |-> <<<<1, 2>>>>, sat |-> (0 :> <<<<>>, <<>>, <<>>, <<>>>>), rep |-> 1, malive |-> (0 :> TRUE), qalive |-> <<TRUE>>, unspec |-> FALSE, trk |-> <<>>, okrep |-> 1],g |-> [clock |-> 2, stamp |-> (1 :> 1 @@ 2 :> 2 @@ 101 :> 0), passed |-> (1 :> {} @@ 2 :> {} @@ 101 :> {}), named |-> <<FALSE, FALSE>>, eol |-> <<0, 0>>, owner |-> <<0, 0>>, tstamp |-> <<0>>, rinst |-> 1, okinst |-> 1]]),
    ([st |-> [mon |-> <<[alive |-> FALSE, died |-> FALSE, n |-> 0, obj |-> 0, qs |-> <<>>, nq |-> 0]>>, exp |-> <<[alive |-> TRUE, n |-> 0, hi |-> 99, f |-> 1, qs |-> <<1>>, lo |-> 0, rep |-> FALSE, sh |-> 5, linked |-> TRUE, pt |-> <<<<1, 1>>>>, wt |-> <<>>, seb |-> <<>>, retk |-> 1, retv |-> 100, flo |-> 0, fhi |-> 99, allq |-> <<1>>], [alive |-> TRUE, n |-> 1, hi |-> 2, f |-> 1, qs |-> <<1>>, lo |-> 2, rep |-> FALSE, sh |-> 5, linked |-> TRUE, pt |-> <<<<1, 0>>>>, wt |-> <<>>, seb |-> <<>>, retk |-> 1, retv |-> 200, flo |-> 2, fhi |-> 2, allq |-> <<1>>]>>, obj |-> <<[alive |-> FALSE, mons |-> <<>>]>>, act |-> (0 :> <<<<2, 1>>, <<>>, <<>>, <<>>>>), pend |-> <<<<1, 2>>>>, sat |-> (0 :> <<<<>>, <<>>, <<>>, <<>>>>), rep |-> 1, malive |-> (0 :> TRUE), qalive |-> <<TRUE>>, unspec |-> FALSE, trk |-> <<>>, okrep |-> 1],g |-> [clock |-> 2, stamp |-> (1 :> 1 @@ 2 :> 2 @@ 101 :> 0), passed |-> (1 :> {1} @@ 2 :> {} @@ 101 :> {}), named |-> <<FALSE, FALSE>>, eol |-> <<0, 0>>, owner |-> <<0, 0>>, tstamp |-> <<0>>, rinst |-> 1, okinst |-> 1]])
    >>
----


=============================================================================

---- CONFIG MCCore_TTrace_1790978890 ----
CONSTANTS
    NSlot = 2
    NMock = 1
    NSeq = 1
    NObj = 1
    NMon = 1
    NTr = 1
    AsIs_D1 = TRUE
    AsIs_D4 = FALSE
    MShapes = { 5 }
    MArgs = { 0 , 1 }
    MTermIds = { 2 , 3 }
    MBoundIds = { 2 , 3 , 5 }
    MFns = { 1 }
    MaxCreate = 2
    MaxN = 3
    UseMove = FALSE
    UseDestroyMock = FALSE
    UseDestroySeq = FALSE
    UseMonitors = FALSE
    UseWith = FALSE
    UseTracers = FALSE
    UseReporters = FALSE

INVARIANT
    _inv

CHECK_DEADLOCK
    \* CHECK_DEADLOCK off because of PROPERTY or INVARIANT above.
    FALSE

INIT
    _init

NEXT
    _next

CONSTANT
    _TETrace <- _trace

ALIAS
    _expression
=============================================================================
\* Generated on Fri Oct 02 22:08:12 UTC 2026