------------------------------ MODULE CountInd ------------------------------
(***************************************************************************)
(* C03, unbounded in history length and in the bounds: an inductive        *)
(* invariant of the sequence-free core, discharged by Apalache             *)
(* (Init => IndInv with --length=0, IndInv /\ Next => IndInv' with         *)
(* --length=1 starting from IndInv).  The expectation set is a finite      *)
(* constant; call counts and bounds are unbounded integers.                *)
(* The model: every expectation has bounds lo <= hi (hi = -1 encodes "no   *)
(* upper bound"), a handled-call count n and a creation stamp; it sits in  *)
(* the active set until n reaches hi, then in the saturated set.  A call   *)
(* goes to the newest active expectation (all match - the matcher          *)
(* dimension is orthogonal to counting).                                   *)
(***************************************************************************)
EXTENDS Integers, FiniteSets

CONSTANT
  \* @type: Set(Int);
  Slots

VARIABLES
  \* @type: Int -> Bool;
  alive,
  \* @type: Int -> Int;
  lo,
  \* @type: Int -> Int;
  hi,
  \* @type: Int -> Int;
  n,
  \* @type: Int -> Int;
  stamp,
  \* @type: Set(Int);
  act,
  \* @type: Set(Int);
  sat,
  \* @type: Int;
  clock

CInit == Slots = {1, 2, 3}

Unbounded(s) == hi[s] = -1
Forbid(s) == hi[s] = 0

Init ==
  /\ alive = [s \in Slots |-> FALSE]
  /\ lo = [s \in Slots |-> 0]
  /\ hi = [s \in Slots |-> 0]
  /\ n = [s \in Slots |-> 0]
  /\ stamp = [s \in Slots |-> 0]
  /\ act = {}
  /\ sat = {}
  /\ clock = 0

Create(s, l, h) ==
  /\ ~alive[s]
  /\ l >= 0 /\ (h = -1 \/ h >= l)
  /\ alive' = [alive EXCEPT ![s] = TRUE]
  /\ lo' = [lo EXCEPT ![s] = l]
  /\ hi' = [hi EXCEPT ![s] = h]
  /\ n' = [n EXCEPT ![s] = 0]
  /\ clock' = clock + 1
  /\ stamp' = [stamp EXCEPT ![s] = clock + 1]
  /\ act' = act \union {s}
  /\ sat' = sat

\* the newest active expectation takes the call, unless it is a forbidding one (then the call is rejected, nothing changes)
Call ==
  \E c \in act :
    /\ \A d \in act : stamp[d] <= stamp[c]
    /\ IF Forbid(c)
       THEN UNCHANGED <<alive, lo, hi, n, stamp, act, sat, clock>>
       ELSE /\ n' = [n EXCEPT ![c] = n[c] + 1]
            /\ IF n[c] + 1 = hi[c]
               THEN act' = act \ {c} /\ sat' = sat \union {c}
               ELSE act' = act /\ sat' = sat
            /\ UNCHANGED <<alive, lo, hi, stamp, clock>>

Release(s) ==
  /\ alive[s]
  /\ alive' = [alive EXCEPT ![s] = FALSE]
  /\ act' = act \ {s}
  /\ sat' = sat \ {s}
  /\ UNCHANGED <<lo, hi, n, stamp, clock>>

Next ==
  \/ \E s \in Slots : \E l \in 0..1000000 : \E h \in -1..1000000 : Create(s, l, h)
  \/ Call
  \/ \E s \in Slots : Release(s)

TypeOK ==
  /\ alive \in [Slots -> BOOLEAN]
  /\ lo \in [Slots -> Int] /\ hi \in [Slots -> Int] /\ n \in [Slots -> Int] /\ stamp \in [Slots -> Int]
  /\ act \in SUBSET Slots /\ sat \in SUBSET Slots
  /\ clock \in Int

\* C03: never more than max; saturated <=> count = max; the active set holds exactly the unsaturated (or forbidding) ones
IndInv ==
  /\ TypeOK
  /\ clock >= 0
  /\ act \intersect sat = {}
  /\ \A s \in Slots :
       /\ (s \in act \/ s \in sat) => alive[s]
       /\ alive[s] =>
            /\ n[s] >= 0 /\ lo[s] >= 0
            /\ (hi[s] = -1 \/ hi[s] >= lo[s])
            /\ (hi[s] # -1 => n[s] <= hi[s])                               \* handles at most max
            /\ (s \in sat <=> (hi[s] > 0 /\ n[s] = hi[s]))                 \* saturated list = count reached max
            /\ (s \in act <=> (hi[s] = -1 \/ hi[s] = 0 \/ n[s] < hi[s]))   \* still takes calls
            /\ stamp[s] >= 1 /\ stamp[s] <= clock
=============================================================================
