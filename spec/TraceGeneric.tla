---------------------------- MODULE TraceGeneric ----------------------------
(***************************************************************************)
(* Trace validator for the repository's own test programs: folds the       *)
(* recorded hook events (harness/suite_trace.py) through Generic!GStep,    *)
(* collects every rule violation with its line and test case, and writes   *)
(* the verdict as ndjson.  Total: after a violation the rest of the test   *)
(* case is skipped (its state can no longer be trusted), the next case is  *)
(* validated again.                                                        *)
(***************************************************************************)
EXTENDS Generic, Json, IOUtils

TraceLog == ndJsonDeserialize(IOEnv.TRACE)
VerdictFile == IOEnv.VERDICT

VARIABLES l, st, bad, caseid, viol, done
vars == <<l, st, bad, caseid, viol, done>>

Stamp(ms, line, seg) == [i \in 1..Len(ms) |-> ms[i] @@ [line |-> line, seg |-> seg]]

TraceInit == l = 1 /\ st = GInit /\ bad = FALSE /\ caseid = "" /\ viol = <<>> /\ done = FALSE

Consume ==
  /\ l <= Len(TraceLog)
  /\ l' = l + 1
  /\ done' = done
  /\ LET ev == TraceLog[l] IN
     IF ev.e = "Case"
     THEN LET ms == IF bad THEN <<>> ELSE Settle(st)
          IN  /\ st' = GInit /\ bad' = FALSE /\ caseid' = ev.id
              /\ viol' = IF Len(viol) < 200 THEN viol \o Stamp(ms, l, caseid) ELSE viol
     ELSE IF bad THEN UNCHANGED <<st, bad, caseid, viol>>
     ELSE LET r == GStep(st, ev)
          IN  /\ st' = r.st /\ caseid' = caseid
              /\ bad' = (r.mis # <<>>)
              /\ viol' = IF Len(viol) < 200 THEN viol \o Stamp(r.mis, l, caseid) ELSE viol

Finish ==
  /\ l = Len(TraceLog) + 1
  /\ ~done
  /\ done' = TRUE
  /\ UNCHANGED <<l, st, bad, caseid, viol>>
  /\ ndJsonSerialize(VerdictFile,
        viol \o <<[field |-> "END", prop |-> "", exp |-> ToString(Len(TraceLog)), got |-> ToString(l - 1),
                   line |-> l, seg |-> ""]>>)

TraceNext == Consume \/ Finish
TraceSpec == TraceInit /\ [][TraceNext]_vars
=============================================================================
