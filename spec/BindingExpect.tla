---------------------------- MODULE BindingExpect ----------------------------
(***************************************************************************)
(* C09: what _1 .. _15 denote inside WITH / SIDE_EFFECT / RETURN / THROW   *)
(* clauses, and what a clause sees of a local variable it names.           *)
(*                                                                         *)
(* A small store model.  Cells: the caller's argument object `arg`, the    *)
(* callee's parameter object `par` (exists only for by-value passing), the *)
(* local variable `loc` named by clauses, and the copy `snap` a plain      *)
(* (non-LR_) clause took of it when the expectation was created.           *)
(* Passing modes: "value", "lref", "clref", "rref", "ptr", "uptr" (move-   *)
(* only, by value), "ccval" (copy-counting type by value, rvalue argument),*)
(* "ccref" (copy-counting type by const reference).                        *)
(***************************************************************************)
EXTENDS Integers, Sequences, TLC

Modes == {"value", "lref", "clref", "rref", "ptr", "uptr", "ccval", "ccref", "none"}
ByValue(m) == m \in {"value", "uptr", "ccval"}
Writable(m) == m \in {"lref", "rref", "ptr"}

\* the cell a clause's _i is bound to
Target(m) == IF ByValue(m) THEN "par" ELSE "arg"

(* ---- expected observations of one generated case (see harness/gen_c09.py) ---- *)
\* addr:   &_i (for ptr: _i itself) equals the address of the caller's object
\* stable: WITH, SIDE_EFFECT and RETURN of one call see the same object
\* value:  the value seen through _i is that of the i-th actual argument (positional order)
\* wrote:  value of the caller's object after a clause assigned 77 through _i
\* copies: copy constructions of the copy-counting argument during the call
\* retal:  a reference returned from _i aliases the caller's object
\* plain / lr: value of the local seen by plain / LR_ clauses when it was 1 at creation and 2 at the call
Expect(m, i) ==
  [addr   |-> IF m = "none" THEN -1 ELSE IF m = "uptr" THEN 1          \* the pointee is the caller's: moved, not copied
              ELSE IF ByValue(m) THEN 0 ELSE 1,
   stable |-> IF m = "none" THEN -1 ELSE 1,
   value  |-> IF m = "none" THEN -1 ELSE 100 + i,
   wrote  |-> IF Writable(m) THEN 77 ELSE IF m = "none" THEN -1 ELSE 100 + i,
   copies |-> IF m \in {"ccval", "ccref"} THEN 0 ELSE -1,
   retal  |-> IF m \in {"lref", "clref", "ccref"} THEN 1 ELSE -1,
   plain  |-> 1,
   lr     |-> 2]
\* kinds of generated case whose RESULT is built by moving a move-only parameter on (RETURN(std::move(_i))): the caller
\* receives the very pointee it passed in, whether or not a tracer printed the result on its way out
MoveRet(k) == k \in {"moveret", "moveret_tr"}
RetAl(m, i, k) == IF MoveRet(k) THEN 1 ELSE Expect(m, i).retal
=============================================================================
