---- MODULE MCConc_TTrace_1790989028 ----
EXTENDS Sequences, MCConc, TLCExt, Toolbox, Naturals, TLC

_expression ==
    LET MCConc_TEExpression == INSTANCE MCConc_TEExpression
    IN MCConc_TEExpression!expression
----

_trace ==
    LET MCConc_TETrace == INSTANCE MCConc_TETrace
    IN MCConc_TETrace!trace
----

_inv ==
    ~(
        TLCGet("level") = Len(_TETrace)
        /\
        sec = (<<1, 1>>)
        /\
        res = (<<<<>>, <<[q |-> <<0, -1>>, acc |-> 1, hd |-> 0, skip |-> 0, reps |-> <<>>]>>>>)
        /\
        st = ([exp |-> <<[sh |-> 0, lo |-> 0, hi |-> 0, n |-> 0, linked |-> FALSE, f |-> 0, alive |-> FALSE, pt |-> <<>>, wt |-> <<>>, seb |-> <<>>, retk |-> 0, retv |-> 0, rep |-> FALSE, qs |-> <<>>, flo |-> 0, fhi |-> 0, allq |-> <<>>, nest |-> <<-1, 0, 0, 0>>, scoped |-> FALSE], [sh |-> 5, lo |-> 1, hi |-> 1, n |-> 0, linked |-> TRUE, f |-> 1, alive |-> TRUE, pt |-> <<<<1, 1>>>>, wt |-> <<>>, seb |-> <<>>, retk |-> 1, retv |-> 200, rep |-> FALSE, qs |-> <<1>>, flo |-> 1, fhi |-> 1, allq |-> <<1>>, nest |-> <<-1, 0, 0, 0>>, scoped |-> FALSE]>>, pend |-> <<<<101, 2>>>>, mon |-> <<[n |-> 0, obj |-> 1, alive |-> TRUE, qs |-> <<1>>, scoped |-> FALSE, died |-> FALSE, nq |-> 1]>>, obj |-> <<[alive |-> TRUE, mons |-> <<1>>]>>, rep |-> 1, act |-> (0 :> <<<<2>>, <<>>, <<>>, <<>>>>), sat |-> (0 :> <<<<>>, <<>>, <<>>, <<>>>>), malive |-> (0 :> TRUE), qalive |-> <<TRUE>>, trk |-> <<>>, okrep |-> 1, unspec |-> FALSE])
        /\
        pc = (<<1, 2>>)
        /\
        scen = (4)
        /\
        unlockedShared = (TRUE)
        /\
        prog = (<<>>)
    )
----

_init ==
    /\ prog = _TETrace[1].prog
    /\ pc = _TETrace[1].pc
    /\ unlockedShared = _TETrace[1].unlockedShared
    /\ res = _TETrace[1].res
    /\ st = _TETrace[1].st
    /\ scen = _TETrace[1].scen
    /\ sec = _TETrace[1].sec
----

_next ==
    /\ \E i,j \in DOMAIN _TETrace:
        /\ \/ /\ j = i + 1
              /\ i = TLCGet("level")
        /\ prog  = _TETrace[i].prog
        /\ prog' = _TETrace[j].prog
        /\ pc  = _TETrace[i].pc
        /\ pc' = _TETrace[j].pc
        /\ unlockedShared  = _TETrace[i].unlockedShared
        /\ unlockedShared' = _TETrace[j].unlockedShared
        /\ res  = _TETrace[i].res
        /\ res' = _TETrace[j].res
        /\ st  = _TETrace[i].st
        /\ st' = _TETrace[j].st
        /\ scen  = _TETrace[i].scen
        /\ scen' = _TETrace[j].scen
        /\ sec  = _TETrace[i].sec
        /\ sec' = _TETrace[j].sec

\* Uncomment the ASSUME below to write the states of the error trace
\* to the given file in Json format. Note that you can pass any tuple
\* to `JsonSerialize`. For example, a sub-sequence of _TETrace.
    \* ASSUME
    \*     LET J == INSTANCE Json
    \*         IN J!JsonSerialize("MCConc_TTrace_1790989028.json", _TETrace)

=============================================================================

 Note that you can extract this module `MCConc_TEExpression`
  to a dedicated file to reuse `expression` (the module in the 
  dedicated `MCConc_TEExpression.tla` file takes precedence 
  over the module `MCConc_TEExpression` below).

---- MODULE MCConc_TEExpression ----
EXTENDS Sequences, MCConc, TLCExt, Toolbox, Naturals, TLC

expression == 
    [
        \* To hide variables of the `MCConc` spec from the error trace,
        \* remove the variables below.  The trace will be written in the order
        \* of the fields of this record.
        prog |-> prog
        ,pc |-> pc
        ,unlockedShared |-> unlockedShared
        ,res |-> res
        ,st |-> st
        ,scen |-> scen
        ,sec |-> sec
        
        \* Put additional constant-, state-, and action-level expressions here:
        \* ,_stateNumber |-> _TEPosition
        \* ,_progUnchanged |-> prog = prog'
        
        \* Format the `prog` variable as Json value.
        \* ,_progJson |->
        \*     LET J == INSTANCE Json
        \*     IN J!ToJson(prog)
        
        \* Lastly, you may build expressions over arbitrary sets of states by
        \* leveraging the _TETrace operator.  For example, this is how to
        \* count the number of times a spec variable changed up to the current
        \* state in the trace.
        \* ,_progModCount |->
        \*     LET F[s \in DOMAIN _TETrace] ==
        \*         IF s = 1 THEN 0
        \*         ELSE IF _TETrace[s].prog # _TETrace[s-1].prog
        \*             THEN 1 + F[s-1] ELSE F[s-1]
        \*     IN F[_TEPosition - 1]
    ]

=============================================================================



Parsing and semantic processing can take forever if the trace below is long.
 In this case, it is advised to uncomment the module below to deserialize the
 trace from a generated binary file.

\*
\*---- MODULE MCConc_TETrace ----
\*EXTENDS IOUtils, MCConc, TLC
\*
\*trace == IODeserialize("MCConc_TTrace_1790989028.bin", TRUE)
\*
\*=============================================================================
\*

---- MODULE MCConc_TETrace ----
EXTENDS MCConc, TLC

trace == 
    <<
    ([sec |-> <<1, 1>>,res |-> <<<<>>, <<>>>>,st |-> [exp |-> <<[sh |-> 0, lo |-> 0, hi |-> 0, n |-> 0, linked |-> FALSE, f |-> 0, alive |-> FALSE, pt |-> <<>>, wt |-> <<>>, seb |-> <<>>, retk |-> 0, retv |-> 0, rep |-> FALSE, qs |-> <<>>, flo |-> 0, fhi |-> 0, allq |-> <<>>, nest |-> <<-1, 0, 0, 0>>, scoped |-> FALSE], [sh |-> 5, lo |-> 1, hi |-> 1, n |-> 0, linked |-> TRUE, f |-> 1, alive |-> TRUE, pt |-> <<<<1, 1>>>>, wt |-> <<>>, seb |-> <<>>, retk |-> 1, retv |-> 200, rep |-> FALSE, qs |-> <<1>>, flo |-> 1, fhi |-> 1, allq |-> <<1>>, nest |-> <<-1, 0, 0, 0>>, scoped |-> FALSE]>>, pend |-> <<<<101, 2>>>>, mon |-> <<[n |-> 0, obj |-> 1, alive |-> TRUE, qs |-> <<1>>, scoped |-> FALSE, died |-> FALSE, nq |-> 1]>>, obj |-> <<[alive |-> TRUE, mons |-> <<1>>]>>, rep |-> 1, act |-> (0 :> <<<<2>>, <<>>, <<>>, <<>>>>), sat |-> (0 :> <<<<>>, <<>>, <<>>, <<>>>>), malive |-> (0 :> TRUE), qalive |-> <<TRUE>>, trk |-> <<>>, okrep |-> 1, unspec |-> FALSE],pc |-> <<1, 1>>,scen |-> 4,unlockedShared |-> FALSE,prog |-> <<>>]),
    ([sec |-> <<1, 1>>,res |-> <<<<>>, <<[q |-> <<0, -1>>, acc |-> 1, hd |-> 0, skip |-> 0, reps |-> <<>>]>>>>,st |-> [exp |-> <<[sh |-> 0, lo |-> 0, hi |-> 0, n |-> 0, linked |-> FALSE, f |-> 0, alive |-> FALSE, pt |-> <<>>, wt |-> <<>>, seb |-> <<>>, retk |-> 0, retv |-> 0, rep |-> FALSE, qs |-> <<>>, flo |-> 0, fhi |-> 0, allq |-> <<>>, nest |-> <<-1, 0, 0, 0>>, scoped |-> FALSE], [sh |-> 5, lo |-> 1, hi |-> 1, n |-> 0, linked |-> TRUE, f |-> 1, alive |-> TRUE, pt |-> <<<<1, 1>>>>, wt |-> <<>>, seb |-> <<>>, retk |-> 1, retv |-> 200, rep |-> FALSE, qs |-> <<1>>, flo |-> 1, fhi |-> 1, allq |-> <<1>>, nest |-> <<-1, 0, 0, 0>>, scoped |-> FALSE]>>, pend |-> <<<<101, 2>>>>, mon |-> <<[n |-> 0, obj |-> 1, alive |-> TRUE, qs |-> <<1>>, scoped |-> FALSE, died |-> FALSE, nq |-> 1]>>, obj |-> <<[alive |-> TRUE, mons |-> <<1>>]>>, rep |-> 1, act |-> (0 :> <<<<2>>, <<>>, <<>>, <<>>>>), sat |-> (0 :> <<<<>>, <<>>, <<>>, <<>>>>), malive |-> (0 :> TRUE), qalive |-> <<TRUE>>, trk |-> <<>>, okrep |-> 1, unspec |-> FALSE],pc |-> <<1, 2>>,scen |-> 4,unlockedShared |-> TRUE,prog |-> <<>>])
    >>
----


=============================================================================

---- CONFIG MCConc_TTrace_1790989028 ----
CONSTANTS
    NSlot = 2
    NMock = 1
    NSeq = 1
    NObj = 1
    NMon = 1
    NTr = 1
    AsIs_D1 = FALSE
    AsIs_D4 = FALSE
    AsIs_D7 = TRUE
    Scenarios = { 1 , 2 , 3 , 4 }
    GenLen = 2

INVARIANT
    _inv

CHECK_DEADLOCK
    \* CHECK_DEADLOCK off because of PROPERTY or INVARIANT above.
    FALSE

INIT
    _init

NEXT
    _next

CONSTANT
    _TETrace <- _trace

ALIAS
    _expression
=============================================================================
\* Generated on Sat Oct 03 00:57:09 UTC 2026