------------------------------ MODULE Generic ------------------------------
(***************************************************************************)
(* The expectation machine at object-identity level, for ARBITRARY         *)
(* programs: the repository's own test programs (self_test, thread_terror) *)
(* built with the guarded verification hooks.  Where Core.tla knows the    *)
(* driver's shapes and evaluates matchers itself, this module takes the    *)
(* verdict of every matcher and the sequence cost of every candidate as    *)
(* recorded inputs and specifies what the machine must do with them:       *)
(*   - list discipline: a new expectation goes to the FRONT of its         *)
(*     function's active list, a saturated one to the BACK of the          *)
(*     saturated list, a destroyed one leaves its list (C02, C14);         *)
(*   - selection: the result of the search is the matching candidate of  *)
(*     least cost, the newest among equals, or none; how the list is      *)
(*     walked is not constrained (C01, C02);                               *)
(*   - counting: the chosen expectation, and nobody else, is counted once; *)
(*     never beyond its upper bound; it saturates exactly when the count   *)
(*     reaches the upper bound; a forbidding or not-callable candidate is  *)
(*     never counted (C03, C05, C07);                                      *)
(*   - end of life: an expectation is reported as unfulfilled iff it is    *)
(*     still linked, was never named in a report and is below its lower    *)
(*     bound - by its own destructor or by its mock's, once (C04);         *)
(*   - reports: a call without a candidate, with a forbidding or a         *)
(*     not-callable candidate sends exactly one fatal report; an           *)
(*     unfulfilled expectation exactly one non-fatal one; destructors      *)
(*     never send fatal reports (C15).                                     *)
(* GStep(st, ev) returns the next state and the list of rule violations.   *)
(***************************************************************************)
EXTENDS Naturals, Integers, Sequences, FiniteSets, TLC

Inf == 1000000

\* report kinds: 1 unfulfilled / pending, 2 forbidden call, 3 no match, 4 sequence mismatch, 0 other sources
NoCtx == [kind |-> "none", f |-> 0, cost |-> 0, need |-> -1, got |-> 0, gotsev |-> -1, eol |-> 0]
GInit == [E |-> <<>>, L |-> <<>>, ctx |-> NoCtx]      \* E, L: functions with a growing domain (empty function = <<>>)

Has(f, k) == k \in DOMAIN f
Lst(st, l) == IF Has(st.L, l) THEN st.L[l] ELSE <<>>
Put(f, k, v) == [x \in (DOMAIN f) \cup {k} |-> IF x = k THEN v ELSE f[x]]
Del(f, k) == [x \in (DOMAIN f) \ {k} |-> f[x]]
Without(s, x) == SelectSeq(s, LAMBDA y : y # x)
Ids(cands) == [i \in 1..Len(cands) |-> cands[i][1]]

V(rule, prop, exp, got) == [field |-> rule, prop |-> prop, exp |-> ToString(exp), got |-> ToString(got)]
Chk(ok, rule, prop, exp, got) == IF ok THEN <<>> ELSE <<V(rule, prop, exp, got)>>

\* the report obligations of the previous step are settled when the next step that is not a report arrives
Settle(st) ==
  LET c == st.ctx IN
  IF c.need > 0
  THEN Chk(c.got = 1 /\ c.gotsev = (IF c.need = 1 THEN 1 ELSE 0), "one-report", IF c.need = 1 THEN "C04 C15" ELSE "C15 C01 C07 C05",
           <<"exactly one report of kind", c.need, "severity", IF c.need = 1 THEN 1 ELSE 0>>, <<c.got, c.gotsev>>)
  ELSE IF c.kind = "dtor"
  THEN Chk(c.eol = 0, "no-report", "C04 C15", "no end-of-life report for a fulfilled / already reported expectation", c.eol)
  ELSE <<>>

\* which candidate must the search return?
Choice(cands) ==
  LET zero == {i \in 1..Len(cands) : cands[i][2] = 0}
      hit  == {i \in 1..Len(cands) : cands[i][2] >= 0}
  IN  IF zero # {} THEN cands[CHOOSE i \in zero : \A j \in zero : i <= j][1]
      ELSE IF hit = {} THEN 0
      ELSE LET mc == CHOOSE c \in {cands[i][2] : i \in hit} : \A i \in hit : c <= cands[i][2]
               first == CHOOSE i \in hit : cands[i][2] = mc /\ \A j \in hit : cands[j][2] = mc => i <= j
           IN  cands[first][1]
StopsAt(cands) ==          \* how many candidates the search visits: up to the first of cost 0, else all
  LET zero == {i \in 1..Len(cands) : cands[i][2] = 0}
  IN  IF zero # {} THEN CHOOSE i \in zero : \A j \in zero : i <= j ELSE -1

Unfulfilled(st, x) == LET r == st.E[x] IN r.lst # 0 /\ ~r.rep /\ r.n < r.lo

GStep(st, ev) ==
  LET c == st.ctx IN
  CASE ev.e = "report" ->
         \* counted against the obligation of the current step if it is of the kind that step owes
         [st |-> [st EXCEPT !.ctx.got = IF ev.k = c.need THEN @ + 1 ELSE @,
                            !.ctx.gotsev = IF ev.k = c.need THEN ev.v ELSE @,
                            !.ctx.eol = IF ev.k = 1 /\ c.need # 1 THEN @ + 1 ELSE @],
          mis |-> Chk(~(c.kind = "dtor" /\ ev.v = 0), "fatal-from-destructor", "C15", "destructors send non-fatal reports only", ev.v)
                  \o Chk((ev.k = 1 => ev.v = 1) /\ (ev.k \in {2, 3} => ev.v = 0), "severity", "C15",
                         "unfulfilled: non-fatal; forbidden / no match: fatal", <<ev.k, ev.v>>)
                  \o Chk(ev.k \in {2, 3, 4} /\ ev.v = 0 => c.kind = "found", "fatal-outside-call", "C15", "fatal reports come from calls", <<ev.k, c.kind>>)]
    [] ev.e = "reported" ->
         [st |-> IF Has(st.E, ev.x) THEN [st EXCEPT !.E[ev.x].rep = TRUE] ELSE st, mis |-> <<>>]
    [] ev.e = "link" ->
         LET l == ev.l IN
         [st |-> [st EXCEPT !.E = Put(st.E, ev.x, [lo |-> ev.lo, hi |-> ev.hi, n |-> 0, rep |-> FALSE, lst |-> l, sat |-> FALSE]),
                            !.L = Put(st.L, l, <<ev.x>> \o Lst(st, l)),
                            !.ctx = NoCtx],
          mis |-> Settle(st)
                  \o Chk(~Has(st.E, ev.x), "fresh", "HARNESS", "a new expectation", ev.x)
                  \o Chk(ev.hi = -1 \/ ev.lo <= ev.hi, "bounds", "C03", "lower bound <= upper bound", <<ev.lo, ev.hi>>)]
    [] ev.e = "find" ->
         \* Implementation-agnostic: nothing is said about the order or extent of the search, only about its result.
         \* The candidates come from the searched list; the result is the matching candidate of least cost, the newest
         \* among equals; a candidate that was not looked at must not have been able to win.
         LET lst   == Lst(st, ev.l)
             known == \A i \in 1..Len(ev.cands) : Has(st.E, ev.cands[i][1])
             Pos(x) == CHOOSE i \in 1..Len(lst) : lst[i] = x                   \* 1 = newest
             inlist == \A i \in 1..Len(ev.cands) : \E j \in 1..Len(lst) : lst[j] = ev.cands[i][1]
             hit   == {i \in 1..Len(ev.cands) : ev.cands[i][2] >= 0}
             Better(i, j) == ev.cands[i][2] < ev.cands[j][2] \/ (ev.cands[i][2] = ev.cands[j][2] /\ Pos(ev.cands[i][1]) < Pos(ev.cands[j][1]))
             want  == IF hit = {} THEN 0 ELSE ev.cands[CHOOSE i \in hit : \A j \in hit \ {i} : Better(i, j) \/ ev.cands[i][1] = ev.cands[j][1]][1]
             seen  == {ev.cands[i][1] : i \in 1..Len(ev.cands)}
             unseen == {lst[j] : j \in 1..Len(lst)} \ seen
             cost  == IF ev.f = 0 THEN 0
                      ELSE LET is == {i \in 1..Len(ev.cands) : ev.cands[i][1] = ev.f} IN
                           IF is = {} THEN -1 ELSE ev.cands[CHOOSE i \in is : TRUE][2]
             sound == IF ev.f = 0 THEN unseen = {}
                      ELSE \A u \in unseen : cost = 0 /\ Pos(u) > Pos(ev.f)
         IN
         [st |-> [st EXCEPT !.ctx = [kind |-> "found", f |-> ev.f, cost |-> cost,
                                     need |-> IF ev.f = 0 THEN 3 ELSE IF cost >= Inf THEN 4 ELSE -1, got |-> 0, gotsev |-> -1, eol |-> 0]],
          mis |-> Settle(st)
                  \o (IF ~known THEN <<>>       \* expectations created before the trace started are not tracked
                      ELSE Chk(inlist, "foreign-candidate", "C02", "only expectations of the called object and function are candidates", <<Ids(ev.cands), lst>>)
                        \o (IF ~inlist THEN <<>>
                            ELSE Chk(ev.f = want, "selection", "C01 C02 C05", want, <<ev.f, ev.cands>>)
                              \o Chk(ev.f # want \/ sound, "unexamined-candidate", "C01 C02",
                                     "a candidate that was not examined could not have won", <<ev.f, unseen>>)))]
    [] ev.e = "forbidden" ->
         [st |-> IF Has(st.E, ev.x) THEN [st EXCEPT !.E[ev.x].rep = TRUE, !.ctx.need = 2] ELSE [st EXCEPT !.ctx.need = 2],
          mis |-> Chk(c.kind = "found" /\ c.f = ev.x, "forbidden-is-chosen", "C07", c.f, ev.x)
                  \o (IF Has(st.E, ev.x) THEN Chk(st.E[ev.x].hi = 0, "forbidden-bound", "C07", 0, st.E[ev.x].hi) ELSE <<>>)]
    [] ev.e = "handled" ->
         IF ~Has(st.E, ev.x) THEN [st |-> [st EXCEPT !.ctx = NoCtx], mis |-> <<>>]
         ELSE LET r == st.E[ev.x]
                  saturates == r.hi # -1 /\ ev.v = r.hi
                  L1 == IF ev.l # 0 THEN Put(Put(st.L, r.lst, Without(Lst(st, r.lst), ev.x)), ev.l, Append(Lst(st, ev.l), ev.x)) ELSE st.L
              IN
              [st |-> [st EXCEPT !.E[ev.x] = [r EXCEPT !.n = ev.v, !.lst = IF ev.l # 0 THEN ev.l ELSE @, !.sat = (ev.l # 0)],
                                 !.L = L1, !.ctx = [NoCtx EXCEPT !.kind = "handled", !.f = ev.x]],
               mis |-> Chk(c.kind = "found" /\ c.f = ev.x, "handler-is-chosen", "C02 C08", c.f, ev.x)
                       \o Chk(c.kind # "found" \/ c.cost < Inf, "not-callable-handled", "C05", "a candidate that is not callable is not counted", c.cost)
                       \o Chk(r.hi # 0, "forbidden-handled", "C07", "a forbidding expectation is never counted", r.hi)
                       \o Chk(ev.v = r.n + 1, "count", "C03 C01", r.n + 1, ev.v)
                       \o Chk(r.hi = -1 \/ ev.v <= r.hi, "over-count", "C03", <<"at most", r.hi>>, ev.v)
                       \o Chk(~r.sat, "saturated-handled", "C03", "a saturated expectation handles nothing", ev.x)
                       \o Chk(saturates <=> ev.l # 0, "saturation", "C03", <<"moved to the saturated list iff count = upper bound", r.hi>>, <<ev.v, ev.l>>)]
    [] ev.e \in {"dtor", "mockdead"} ->
         IF ~Has(st.E, ev.x) THEN [st |-> [st EXCEPT !.ctx = NoCtx], mis |-> Settle(st)]
         ELSE LET r == st.E[ev.x]
                  u == Unfulfilled(st, ev.x)
                  L1 == IF r.lst # 0 THEN Put(st.L, r.lst, Without(Lst(st, r.lst), ev.x)) ELSE st.L
              IN
              [st |-> [st EXCEPT !.E = IF ev.e = "dtor" THEN Del(st.E, ev.x)
                                       ELSE Put(st.E, ev.x, [r EXCEPT !.lst = 0, !.rep = (@ \/ u)]),
                                 !.L = L1,
                                 !.ctx = [NoCtx EXCEPT !.kind = "dtor", !.f = ev.x, !.need = IF u THEN 1 ELSE -1]],     \* what the MODEL says is owed, not what the hook claims
               mis |-> Settle(st)
                       \o Chk((ev.v = 1) <=> u, "unfulfilled", "C04",
                              <<"reported iff linked, not yet named in a report, below the lower bound", u>>, <<ev.v, r>>)]
    [] ev.e = "move" ->
         LET moved == Lst(st, ev.l) IN
         [st |-> [st EXCEPT !.L = Put(IF Has(st.L, ev.l) THEN Del(st.L, ev.l) ELSE st.L, ev.l2, moved),
                            !.E = [x \in DOMAIN st.E |-> IF st.E[x].lst = ev.l THEN [st.E[x] EXCEPT !.lst = ev.l2] ELSE st.E[x]],
                            !.ctx = NoCtx],
          mis |-> Settle(st) \o Chk(~Has(st.L, ev.l2), "move-target", "HARNESS", "a new list", ev.l2)]
    [] ev.e = "decom" ->
         [st |-> [st EXCEPT !.L = IF Has(st.L, ev.l) THEN Del(st.L, ev.l) ELSE @, !.ctx = NoCtx],
          mis |-> Settle(st)
                  \o Chk(Lst(st, ev.l) = <<>>, "decommission", "C04 C14", "every expectation of a destroyed mock is unlinked", Lst(st, ev.l))]
    [] OTHER -> [st |-> st, mis |-> <<>>]
=============================================================================
