----------------------------- MODULE MCTeardown -----------------------------
(***************************************************************************)
(* C14, specification -> code direction.  A fixed population of entities   *)
(* (movable mocks, expectations - one sequenced, one saturated -, a        *)
(* sequence, a watched object with a sequenced monitor, tracers) is built  *)
(* by Prelude; TLC then explores EVERY order of the destroy / move          *)
(* operations in DestroyOps (each followed by a probe round of calls on    *)
(* whatever mock is still alive), checks the structural invariants of the  *)
(* model in every intermediate state, and prints each complete behaviour   *)
(* as an op script.  The scripts are replayed against the real library     *)
(* under ASan/UBSan/LSan and validated by TraceCore.                       *)
(***************************************************************************)
EXTENDS Core, Json
CONSTANTS Population

Ev(e, a) == [e |-> e, a |-> a]
Exp(s, sh, m, lo, hi, q1) == Ev("expect", <<s, sh, m, 0, 0, 0, 0, 0, 0, 0, 0, 0, 0, 0, 0, 0, 100 * s, lo, hi, q1, 0>>)

Prelude ==
  CASE Population = 1 ->
         <<Ev("mock", <<0>>), Ev("seq", <<1>>), Ev("obj", <<1>>),
           Exp(1, 5, 0, 1, 2, 1),                      \* sequenced, first in sequence 1
           Exp(2, 2, 0, 1, 1, 0), Ev("call", <<0, 1, 0, 0>>),   \* saturated by the call
           Exp(3, 54, 0, 0, 99, 1),                    \* void function, sequenced after e1
           Ev("watch", <<1, 1, 1, 1, 0>>)>>            \* sequenced monitor, last in sequence 1
    [] Population = 2 ->
         <<Ev("mock", <<0>>), Ev("seq", <<1>>), Ev("tracer", <<1, 1>>), Ev("tracer", <<2, 1>>),
           Exp(1, 5, 0, 1, 1, 1), Exp(2, 9, 0, 0, 99, 0), Ev("obj", <<1>>), Ev("watch", <<1, 1, 0, 0, 0>>), Ev("watch", <<2, 1, 1, 1, 0>>)>>
    [] Population = 3 ->
         <<Ev("mock", <<0>>), Ev("mock", <<1>>), Ev("seq", <<1>>), Ev("seq", <<2>>),
           [e |-> "expect", a |-> <<1, 7, 0, 0, 0, 0, 0, 0, 0, 0, 0, 0, 0, 0, 0, 0, 100, 1, 1, 1, 2>>],
           [e |-> "expect", a |-> <<2, 7, 1, 0, 0, 0, 0, 0, 0, 0, 0, 0, 0, 0, 0, 0, 200, 0, 99, 2, 1>>]>>
           \o <<Exp(3, 5, 1, 1, 2, 2)>>
    [] Population = 4 ->      \* an entry of two sequences, blocked in the one that stays alive while the other one dies
         <<Ev("mock", <<0>>), Ev("seq", <<1>>), Ev("seq", <<2>>), Ev("obj", <<1>>),
           [e |-> "expect", a |-> <<1, 5, 0, 1, 0, 0, 0, 0, 0, 0, 0, 0, 0, 0, 0, 0, 100, 1, 1, 2, 0>>],     \* f(0), first in sequence 2
           [e |-> "expect", a |-> <<2, 7, 0, 1, 1, 0, 0, 0, 0, 0, 0, 0, 0, 0, 0, 0, 200, 1, 2, 1, 2>>],     \* f(1), in sequences 1 and 2
           [e |-> "expect", a |-> <<3, 7, 0, 1, 2, 0, 0, 0, 0, 0, 0, 0, 0, 0, 0, 0, 300, 0, 99, 2, 1>>],    \* f(2), in sequences 2 and 1
           Ev("watch", <<1, 1, 2, 1, 2>>)>>                                                               \* monitor in both

DestroyOps ==
  CASE Population = 1 -> {Ev("release", <<1>>), Ev("release", <<2>>), Ev("release", <<3>>), Ev("mmock", <<0, 1>>),
                          Ev("dmock", <<1>>), Ev("dseq", <<1>>), Ev("dobj", <<1>>), Ev("unwatch", <<1>>)}
    [] Population = 2 -> {Ev("release", <<1>>), Ev("dmock", <<0>>), Ev("dseq", <<1>>), Ev("dtracer", <<1>>),
                          Ev("dtracer", <<2>>), Ev("dobj", <<1>>), Ev("unwatch", <<1>>), Ev("unwatch", <<2>>)}
    [] Population = 3 -> {Ev("release", <<1>>), Ev("release", <<2>>), Ev("release", <<3>>), Ev("dmock", <<0>>), Ev("dmock", <<1>>),
                          Ev("dseq", <<1>>), Ev("dseq", <<2>>), Ev("mmock", <<0, 2>>)}
    [] Population = 4 -> {Ev("release", <<1>>), Ev("release", <<2>>), Ev("release", <<3>>), Ev("dseq", <<1>>), Ev("dseq", <<2>>),
                          Ev("dobj", <<1>>), Ev("unwatch", <<1>>)}

VARIABLES st, remaining, hist
vars == <<st, remaining, hist>>

RECURSIVE Fold(_, _)
Fold(s, evs) == IF evs = <<>> THEN s ELSE Fold(Step(s, Head(evs)).st, Tail(evs))

Enabled(s, op) == Step(s, op).obs.skip = 0
Probes(s) ==      \* a call on every function that had expectations, on every mock still alive
  LET ms == SeqToSetSeq({m \in Mocks : s.malive[m]})
  IN  [i \in 1..Len(ms) |-> Ev("call", <<ms[i], 1, 0, 0>>)] \o [i \in 1..Len(ms) |-> Ev("call", <<ms[i], 4, 0, 0>>)]
      \o (IF Population = 4 THEN [i \in 1..Len(ms) |-> Ev("call", <<ms[i], 1, 1, 0>>)] \o [i \in 1..Len(ms) |-> Ev("call", <<ms[i], 1, 2, 0>>)] ELSE <<>>)

RECURSIVE PreludeOk(_, _)
PreludeOk(s, evs) == evs = <<>> \/ (Step(s, Head(evs)).obs.skip = 0 /\ PreludeOk(Step(s, Head(evs)).st, Tail(evs)))
Init == Assert(PreludeOk(InitSt, Prelude), "prelude contains an op whose precondition fails") /\ st = Fold(InitSt, Prelude) /\ remaining = DestroyOps /\ hist = Prelude
Next ==
  \E op \in remaining :
     /\ Enabled(st, op)
     /\ LET s1 == Step(st, op).st
            ps == IF s1.unspec /\ Population # 4 THEN <<>> ELSE Probes(s1)
        IN  /\ st' = Fold(s1, ps)
            /\ hist' = hist \o <<op>> \o ps
     /\ remaining' = remaining \ {op}
Spec == Init /\ [][Next]_vars

Done == \A op \in remaining : ~Enabled(st, op)
Emit == Done => PrintT(<<"SCRIPT", ToJson([i \in 1..Len(hist) |-> [e |-> hist[i].e, a |-> hist[i].a]])>>)

\* linkage stays well formed in every intermediate state (the operational half of MCCore!Inv_C14)
WellFormed ==
  /\ \A m \in Mocks : \A f \in Fns :
        /\ ~st.malive[m] => (st.act[m][f] = <<>> /\ st.sat[m][f] = <<>>)
        /\ \A i \in 1..Len(st.act[m][f]) : st.exp[st.act[m][f][i]].alive /\ st.exp[st.act[m][f][i]].linked
        /\ \A i \in 1..Len(st.sat[m][f]) : st.exp[st.sat[m][f][i]].alive /\ st.exp[st.sat[m][f][i]].linked
        /\ Cardinality(Range(st.act[m][f])) = Len(st.act[m][f])
        /\ Range(st.act[m][f]) \cap Range(st.sat[m][f]) = {}
  /\ st.unspec \/ \A q \in Seqs : \A i \in 1..Len(st.pend[q]) :
        LET h == st.pend[q][i] IN IF IsMonH(h) THEN st.mon[h - 100].alive ELSE st.exp[h].alive
  /\ \A o \in Objs : \A i \in 1..Len(st.obj[o].mons) : st.mon[st.obj[o].mons[i]].alive /\ ~st.mon[st.obj[o].mons[i]].died
=============================================================================
