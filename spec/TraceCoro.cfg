SPECIFICATION TraceSpec
CONSTANTS
  NSlot = 3
  NInst = 4
CHECK_DEADLOCK FALSE
