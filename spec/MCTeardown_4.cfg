\* MCTeardown.tla
SPECIFICATION Spec
CONSTANTS
  NSlot = 3
  NMock = 3
  NSeq = 2
  NObj = 1
  NMon = 2
  NTr = 2
  AsIs_D1 = FALSE
  AsIs_D4 = FALSE
  Population = 4
INVARIANT Emit
INVARIANT WellFormed
CHECK_DEADLOCK FALSE
