----------------------------- MODULE TraceCore -----------------------------
(***************************************************************************)
(* Trace validator: replays a recorded execution of the REAL library       *)
(* (ndjson written by harness/seq driver, normalised by normalize.py)      *)
(* through Core!Step and compares every recorded observation with the      *)
(* specified one, field by field.  Total: a mismatch is appended to viol   *)
(* (with the property ids the field belongs to), the segment is skipped    *)
(* until the next Seg event, and the verdict is written as ndjson when the *)
(* whole log is consumed.                                                  *)
(***************************************************************************)
EXTENDS Core, Json, IOUtils

TraceLog == ndJsonDeserialize(IOEnv.TRACE)
VerdictFile == IOEnv.VERDICT

VARIABLES l, st, bad, segid, viol, done
vars == <<l, st, bad, segid, viol, done>>

V(field, prop, e, g) == [field |-> field, prop |-> prop, exp |-> ToString(e), got |-> ToString(g)]
Chk(ok, field, prop, e, g) == IF ok THEN <<>> ELSE <<V(field, prop, e, g)>>

EntSh(s, h) == IF h \in Slots THEN s.exp[h].sh
               ELSE IF IsMonH(h) /\ (h - 100) \in Mons THEN s.mon[h - 100].nq ELSE -1
EntNPar(s, h) == IF h \in Slots THEN Len(s.exp[h].pt) ELSE 0

\* a report whose wording the normaliser does not know is judged by content only (the properties constrain content)
SetOf(s) == {s[i] : i \in 1..Len(s)}
RepOkByContent(pre, x, g) ==
  LET named == SetOf(g.mentions) \cup {g.locent} IN
  /\ g.r = pre.rep
  /\ g.sev = x.sev
  /\ g.textok = 1
  /\ CASE x.kind = "nomatch" -> SetOf(x.args) \subseteq SetOf(g.ints) /\ SetOf(x.lst) \subseteq SetOf(g.mentions)
       [] x.kind = "forbidden" -> x.ent \in named /\ SetOf(x.args) \subseteq SetOf(g.ints)
       [] x.kind = "seqmismatch" -> IF x.entset # {} THEN named \cap x.entset # {} ELSE x.ent \in named
       [] x.kind \in {"unfulfilled", "pending", "stillalive"} -> g.locent = x.ent
       [] x.kind = "unexpected_death" -> g.locent = 0
       [] x.kind = "seq_teardown" -> SetOf(x.lst) \subseteq SetOf(g.mentions)
       [] OTHER -> FALSE

RepOk(pre, x, g) ==
  IF g.kind = "other" THEN RepOkByContent(pre, x, g) ELSE
  /\ g.r = pre.rep
  /\ g.sev = x.sev
  /\ g.kind = x.kind
  /\ g.nameok = 1
  /\ g.argsok = 1
  /\ CASE x.kind = "nomatch" ->
            /\ g.fn = x.fn /\ g.args = x.args /\ g.lk = x.lk
            \* live expectations are listed newest first; the order among the saturated ones is not specified
            /\ IF x.lk = 1
               THEN Len(g.lst) = Len(x.lst) /\ Len(g.det) = Len(g.lst)
                    /\ {<<g.lst[i], g.det[i]>> : i \in 1..Len(g.lst)} = {<<x.lst[i], x.det[i]>> : i \in 1..Len(x.lst)}
               ELSE g.lst = x.lst /\ g.det = x.det
       [] x.kind = "forbidden" ->
            g.ent = x.ent /\ g.locent = x.ent /\ g.args = x.args /\ g.sh = EntSh(pre, x.ent)
       [] x.kind = "seqmismatch" ->
            IF x.entset # {} THEN g.ent \in x.entset /\ g.locent = g.ent /\ g.sh = EntSh(pre, g.ent)
            ELSE g.ent = x.ent /\ g.locent = x.ent /\ g.sh = EntSh(pre, x.ent)
       [] x.kind \in {"unfulfilled", "pending"} ->
            /\ g.ent = x.ent /\ g.locent = x.ent /\ g.sh = EntSh(pre, x.ent)
            /\ g.lo = x.lo /\ g.n = x.n
            /\ Len(g.pslots) = EntNPar(pre, x.ent)
            /\ \A i \in 1..Len(g.pslots) : g.pslots[i] = x.ent
       [] x.kind = "stillalive" -> g.ent = x.ent /\ g.locent = x.ent
       [] x.kind = "unexpected_death" -> g.locent = 0
       \* the report lists exactly the entries that are still pending; the order of the listing is not specified
       [] x.kind = "seq_teardown" -> Len(g.lst) = Len(x.lst) /\ {g.lst[i] : i \in 1..Len(g.lst)} = {x.lst[i] : i \in 1..Len(x.lst)} /\ g.locent = 0
       [] OTHER -> FALSE

RepTag(k) ==
  CASE k = "nomatch" -> "C01 C03 C15"
    [] k = "forbidden" -> "C07 C15 C01"
    [] k = "seqmismatch" -> "C05 C15"
    [] k \in {"unfulfilled", "pending"} -> "C04 C15"
    [] k \in {"stillalive", "unexpected_death"} -> "C13 C15"
    [] k = "seq_teardown" -> "C06 C15"
    [] OTHER -> "C15"

RepsMis(pre, xs, gs) ==
  LET unexpected == {i \in 1..Len(gs) : ~\E j \in 1..Len(xs) : RepOk(pre, xs[j], gs[i])}
      miscount   == {j \in 1..Len(xs) :
                       LET c == Cardinality({i \in 1..Len(gs) : RepOk(pre, xs[j], gs[i])})
                       IN  c < xs[j].cnt \/ c > xs[j].cntmax}
  IN  IF unexpected # {}
      THEN LET i == Min(unexpected)
           IN <<V("report", IF gs[i].r # pre.rep THEN "C16" ELSE RepTag(gs[i].kind) \o (IF xs # <<>> THEN " " \o RepTag(xs[1].kind) ELSE ""), xs, gs[i])>>
      ELSE IF miscount # {}
      THEN LET j == Min(miscount) IN <<V("report-count", RepTag(xs[j].kind), xs[j], gs)>>
      ELSE <<>>

TrOk(x, g) == IF g.res = "other"        \* unknown trace wording: the right tracer, the right expectation with its text, the values
              THEN g.t = x.t /\ g.ent = x.ent /\ g.nameok = 1 /\ {x.args[i] : i \in 1..Len(x.args)} \subseteq {g.args[i] : i \in 1..Len(g.args)}
              ELSE g.t = x.t /\ g.ent = x.ent /\ g.sh = x.sh /\ g.nameok = 1 /\ g.argsok = 1
                   /\ g.args = x.args /\ g.res = x.res /\ g.resv = x.resv

\* clause log: P = 1, W = 2, S = 3, R = 4;  entries <<kind, slot, index, result>>
ClauseMis(pre, o, cl) ==
  LET sr == SelectSeq(cl, LAMBDA c : c[1] \in {3, 4})
      \* matcher / WITH evaluations that come after the first side effect belong to the nested call it issued
      firstS == LET S == {i \in 1..Len(cl) : cl[i][1] = 3} IN IF S = {} THEN Len(cl) + 1 ELSE Min(S)
      pwIdx == {i \in 1..Len(cl) : cl[i][1] \in {1, 2}}
      nOuter == Cardinality({i \in pwIdx : i < firstS})
      pw == SelectSeq(cl, LAMBDA c : c[1] \in {1, 2})
      onOuter(sl) == sl \in (Range(pre.act[o.cm][o.cf]) \cup Range(pre.sat[o.cm][o.cf]))
      onInner(sl) == o.nf # 0 /\ sl \in (Range(pre.act[o.nm][o.nf]) \cup Range(pre.sat[o.nm][o.nf]))
      badres == {i \in 1..Len(pw) :
                   LET c == pw[i] IN
                   IF ~(c[2] \in Slots) \/ ~pre.exp[c[2]].alive THEN TRUE
                   ELSE LET x == pre.exp[c[2]]  args == IF i <= nOuter \/ o.nf = 0 THEN o.cargs ELSE o.nargs IN
                        IF c[1] = 1 THEN ~(c[3] \in 1..Len(x.pt)) \/ c[4] # B2I(Accepts(x.pt[c[3]], args[c[3]]))
                        ELSE ~(c[3] \in 1..Len(x.wt)) \/ c[4] # B2I(Accepts(x.wt[c[3]], WArg(args)))}
      badord == {i \in 1..Len(pw) :
                   LET c == pw[i] IN
                   c[1] = 2 /\ c[2] \in Slots /\
                   IF c[3] = 1 /\ Len(pre.exp[c[2]].pt) = 0 THEN FALSE      \* no parameter: the first condition follows nothing
                   ELSE IF i = 1 THEN TRUE
                   ELSE LET p == pw[i - 1] IN
                        IF c[3] = 1 THEN ~(p[1] = 1 /\ p[2] = c[2] /\ p[3] = Len(pre.exp[c[2]].pt) /\ p[4] = 1)
                        ELSE ~(p[1] = 2 /\ p[2] = c[2] /\ p[3] = c[3] - 1 /\ p[4] = 1)}
      foreign == {i \in 1..Len(pw) : pw[i][2] \in Slots /\ pre.exp[pw[i][2]].alive /\
                                     ~(IF i <= nOuter THEN onOuter(pw[i][2]) ELSE onInner(pw[i][2]))}
  IN  Chk(sr = o.sr, "actions", "C08 C01 C07 C02", o.sr, sr)
      \o (IF o.cf = 0 THEN Chk(pw = <<>>, "clauses-outside-call", "C08", <<>>, pw)
          ELSE Chk(badres = {}, "clause-result", "C08 C10", "P/W results = Accepts(term, arg)", pw)
            \o Chk(badord = {}, "with-order", "C08", "WITH in declaration order, stop at first failure", pw)
            \o Chk(foreign = {}, "foreign-clause", "C02 C08", "only expectations of the called object+function are evaluated", pw))

Mis(pre, r, ev) ==
  LET o == r.obs
      post == r.st
  IN  Chk(ev.skip = o.skip, "skip", "HARNESS", o.skip, ev.skip)
   \o Chk(ev.lockviol = <<>>, "lock-discipline", "C12", "every critical step on shared state runs with the lock held", ev.lockviol)
   \o Chk(ev.q = o.q, "query-result", "C03 C06 C13 C12", o.q, ev.q)
   \o Chk(ev.acc = o.acc, "accepted", "C01 C02 C03 C05 C07", o.acc, ev.acc)
   \o Chk(ev.ret = o.ret /\ ev.thr = o.thr /\ ev.thrv = o.thrv, "result", "C02 C08 C03", <<o.ret, o.thr, o.thrv>>, <<ev.ret, ev.thr, ev.thrv>>)
   \o (IF o.anyreps
       THEN Chk(\A i \in 1..Len(ev.reps) : ev.reps[i].sev = 1, "report-severity", "C15", "non-fatal reports only", ev.reps)
       ELSE RepsMis(pre, o.reps, ev.reps))
   \o Chk(ev.oks = o.oks, "ok-reports", "C16", o.oks, ev.oks)
   \o Chk(ev.probe = o.probe, "previous-reporter", "C16", o.probe, ev.probe)
   \o (IF o.trck THEN Chk(Len(ev.trs) = Len(o.trs) /\ \A i \in 1..Len(o.trs) : TrOk(o.trs[i], ev.trs[i]),
                         "trace-records", "C17", o.trs, ev.trs)
       ELSE <<>>)
   \o ClauseMis(pre, o, ev.cl)
   \o IF post.unspec \/ ev.conc = 1 THEN <<>> ELSE
      Chk(ev.fl = Flags(post), "flags", "C03 C01 C02 C07 C05 C14", Flags(post), ev.fl)
   \o Chk(ev.mon = MonFlags(post), "monitor-flags", "C13 C05", MonFlags(post), ev.mon)
   \o Chk(ev.comp = Completed(post), "is_completed", "C06 C05", Completed(post), ev.comp)

\* ---- atomicity of a mock object's destruction (C12) ----
\* The implementation destroys a mock in one critical section per expectation list (events "dmlist", validated one by one
\* above).  The property asks for more: the whole destruction must be explainable as ONE atomic step.  At the first section
\* of a destruction the window up to its last section is examined: is there a position among the other threads' steps
\* inside the window at which the atomic DestroyMockStep explains every recorded observation of the window?
DmWindowEnd(i, m) ==
  LET js == {j \in i..Len(TraceLog) : TraceLog[j].e = "dmlist" /\ TraceLog[j].a[1] = m /\ TraceLog[j].a[4] = 1}
  IN  IF js = {} THEN 0 ELSE Min(js)
RECURSIVE FoldOk(_, _)
FoldOk(s, evs) ==
  IF evs = <<>> THEN TRUE
  ELSE LET r == Step(s, Head(evs)) IN Mis(s, r, Head(evs)) = <<>> /\ FoldOk(r.st, Tail(evs))
RECURSIVE CatReps(_)
CatReps(evs) == IF evs = <<>> THEN <<>> ELSE Head(evs).reps \o CatReps(Tail(evs))
DmAtomicMis(s, i) ==
  LET ev  == TraceLog[i]
      m   == ev.a[1]
      j   == DmWindowEnd(i, m)
  IN  IF j = 0 THEN <<>>
      ELSE LET win  == [k \in 1..(j - i + 1) |-> TraceLog[i + k - 1]]
               mine == SelectSeq(win, LAMBDA e : e.e = "dmlist" /\ e.a[1] = m)
               oth  == SelectSeq(win, LAMBDA e : ~(e.e = "dmlist" /\ e.a[1] = m))
               dm   == [ev EXCEPT !.e = "dmock", !.a = <<m>>, !.reps = CatReps(mine), !.lockviol = <<>>]
               ok   == \E p \in 0..Len(oth) : FoldOk(s, SubSeq(oth, 1, p) \o <<dm>> \o SubSeq(oth, p + 1, Len(oth)))
           IN  Chk(ok, "dmock-atomicity", "C12",
                   "the destruction of a mock object takes effect atomically among the other threads' operations",
                   [mock |-> m, sections |-> Len(mine), interleaved |-> [k \in 1..Len(oth) |-> <<oth[k].e, oth[k].a>>]])

Stamp(ms, line, seg) == [i \in 1..Len(ms) |-> ms[i] @@ [line |-> line, seg |-> seg]]

TraceInit ==
  /\ l = 1 /\ st = InitSt /\ bad = FALSE /\ segid = "" /\ viol = <<>> /\ done = FALSE

Consume ==
  /\ l <= Len(TraceLog)
  /\ l' = l + 1
  /\ done' = done
  /\ LET ev == TraceLog[l] IN
     CASE ev.e = "Seg" ->
            st' = InitSt /\ bad' = FALSE /\ segid' = ev.id /\ viol' = viol
       [] ev.e = "EndSeg" ->
            /\ UNCHANGED <<st, bad, segid>>
            /\ viol' = IF (ev.exit # 0 \/ ev.sig # 0 \/ ev.san # "") /\ Len(viol) < 200
                       THEN viol \o Stamp(<<V("process", IF ev.exit = 66 THEN "C12" ELSE "C14 C12", "clean exit", <<ev.exit, ev.sig, ev.san>>)>>, l, segid)
                       ELSE viol
       [] ev.e = "Fin" -> UNCHANGED <<st, bad, segid, viol>>
       [] ev.e = "final" ->       \* quiescent state after all threads joined (concurrent driver)
            IF bad \/ st.unspec THEN UNCHANGED <<st, bad, segid, viol>>
            ELSE LET ms == Chk(ev.fl = Flags(st), "final-flags", "C12 C03", Flags(st), ev.fl)
                           \o Chk(ev.mon = MonFlags(st), "final-monitor-flags", "C12 C13", MonFlags(st), ev.mon)
                           \o Chk(ev.comp = Completed(st), "final-is_completed", "C12 C06", Completed(st), ev.comp)
                 IN  /\ UNCHANGED <<st, segid>> /\ bad' = (ms # <<>>)
                     /\ viol' = IF Len(viol) < 200 THEN viol \o Stamp(ms, l, segid) ELSE viol
       [] ev.e = "Terminate" ->
            /\ UNCHANGED <<st, segid>> /\ bad' = TRUE
            /\ viol' = viol \o Stamp(<<V("terminate", "C15 C14", "no std::terminate", "terminate")>>, l, segid)
       [] OTHER ->
            IF bad \/ st.unspec THEN UNCHANGED <<st, bad, segid, viol>>
            ELSE LET r  == Step(st, ev)
                     ms == Mis(st, r, ev) \o (IF ev.e = "dmlist" /\ Len(ev.a) >= 5 /\ ev.a[5] = 1 THEN DmAtomicMis(st, l) ELSE <<>>)
                 IN  /\ st' = r.st
                     /\ segid' = segid
                     /\ bad' = (ms # <<>>)
                     /\ viol' = IF Len(viol) < 200 THEN viol \o Stamp(ms, l, segid) ELSE viol

Finish ==
  /\ l = Len(TraceLog) + 1
  /\ ~done
  /\ done' = TRUE
  /\ UNCHANGED <<l, st, bad, segid, viol>>
  /\ ndJsonSerialize(VerdictFile,
        viol \o <<[field |-> "END", prop |-> "", exp |-> ToString(Len(TraceLog)), got |-> ToString(l - 1),
                   line |-> l, seg |-> ""]>>)

TraceNext == Consume \/ Finish
TraceSpec == TraceInit /\ [][TraceNext]_vars
=============================================================================
