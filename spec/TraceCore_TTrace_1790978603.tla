---- MODULE TraceCore_TTrace_1790978603 ----
EXTENDS Sequences, TraceCore, TLCExt, Toolbox, Naturals, TLC

_expression ==
    LET TraceCore_TEExpression == INSTANCE TraceCore_TEExpression
    IN TraceCore_TEExpression!expression
----

_trace ==
    LET TraceCore_TETrace == INSTANCE TraceCore_TETrace
    IN TraceCore_TETrace!trace
----

_inv ==
    ~(
        TLCGet("level") = Len(_TETrace)
        /\
        st = ([exp |-> <<[sh |-> 0, pt |-> <<>>, rep |-> FALSE, lo |-> 0, n |-> 0, alive |-> FALSE, wt |-> <<>>, f |-> 0, seb |-> <<>>, retk |-> 0, retv |-> 0, hi |-> 0, linked |-> FALSE, qs |-> <<>>, flo |-> 0, fhi |-> 0, allq |-> <<>>], [sh |-> 0, pt |-> <<>>, rep |-> FALSE, lo |-> 0, n |-> 0, alive |-> FALSE, wt |-> <<>>, f |-> 0, seb |-> <<>>, retk |-> 0, retv |-> 0, hi |-> 0, linked |-> FALSE, qs |-> <<>>, flo |-> 0, fhi |-> 0, allq |-> <<>>], [sh |-> 0, pt |-> <<>>, rep |-> FALSE, lo |-> 0, n |-> 0, alive |-> FALSE, wt |-> <<>>, f |-> 0, seb |-> <<>>, retk |-> 0, retv |-> 0, hi |-> 0, linked |-> FALSE, qs |-> <<>>, flo |-> 0, fhi |-> 0, allq |-> <<>>], [sh |-> 0, pt |-> <<>>, rep |-> FALSE, lo |-> 0, n |-> 0, alive |-> FALSE, wt |-> <<>>, f |-> 0, seb |-> <<>>, retk |-> 0, retv |-> 0, hi |-> 0, linked |-> FALSE, qs |-> <<>>, flo |-> 0, fhi |-> 0, allq |-> <<>>], [sh |-> 0, pt |-> <<>>, rep |-> FALSE, lo |-> 0, n |-> 0, alive |-> FALSE, wt |-> <<>>, f |-> 0, seb |-> <<>>, retk |-> 0, retv |-> 0, hi |-> 0, linked |-> FALSE, qs |-> <<>>, flo |-> 0, fhi |-> 0, allq |-> <<>>], [sh |-> 0, pt |-> <<>>, rep |-> FALSE, lo |-> 0, n |-> 0, alive |-> FALSE, wt |-> <<>>, f |-> 0, seb |-> <<>>, retk |-> 0, retv |-> 0, hi |-> 0, linked |-> FALSE, qs |-> <<>>, flo |-> 0, fhi |-> 0, allq |-> <<>>]>>, mon |-> <<[nq |-> 0, n |-> 0, alive |-> FALSE, qs |-> <<>>, obj |-> 0, died |-> FALSE], [nq |-> 0, n |-> 0, alive |-> FALSE, qs |-> <<>>, obj |-> 0, died |-> FALSE], [nq |-> 0, n |-> 0, alive |-> FALSE, qs |-> <<>>, obj |-> 0, died |-> FALSE], [nq |-> 0, n |-> 0, alive |-> FALSE, qs |-> <<>>, obj |-> 0, died |-> FALSE]>>, rep |-> 1, act |-> (0 :> <<<<>>, <<>>, <<>>, <<>>>> @@ 1 :> <<<<>>, <<>>, <<>>, <<>>>> @@ 2 :> <<<<>>, <<>>, <<>>, <<>>>>), sat |-> (0 :> <<<<>>, <<>>, <<>>, <<>>>> @@ 1 :> <<<<>>, <<>>, <<>>, <<>>>> @@ 2 :> <<<<>>, <<>>, <<>>, <<>>>>), unspec |-> FALSE, obj |-> <<[alive |-> FALSE, mons |-> <<>>], [alive |-> FALSE, mons |-> <<>>], [alive |-> FALSE, mons |-> <<>>]>>, malive |-> (0 :> FALSE @@ 1 :> FALSE @@ 2 :> FALSE), pend |-> <<<<>>, <<>>, <<>>>>, qalive |-> <<FALSE, FALSE, FALSE>>, trk |-> <<>>, okrep |-> 1])
        /\
        bad = (FALSE)
        /\
        segid = ("deathwatch-1-5")
        /\
        viol = (<<>>)
        /\
        l = (2)
        /\
        done = (FALSE)
    )
----

_init ==
    /\ bad = _TETrace[1].bad
    /\ done = _TETrace[1].done
    /\ viol = _TETrace[1].viol
    /\ l = _TETrace[1].l
    /\ st = _TETrace[1].st
    /\ segid = _TETrace[1].segid
----

_next ==
    /\ \E i,j \in DOMAIN _TETrace:
        /\ \/ /\ j = i + 1
              /\ i = TLCGet("level")
        /\ bad  = _TETrace[i].bad
        /\ bad' = _TETrace[j].bad
        /\ done  = _TETrace[i].done
        /\ done' = _TETrace[j].done
        /\ viol  = _TETrace[i].viol
        /\ viol' = _TETrace[j].viol
        /\ l  = _TETrace[i].l
        /\ l' = _TETrace[j].l
        /\ st  = _TETrace[i].st
        /\ st' = _TETrace[j].st
        /\ segid  = _TETrace[i].segid
        /\ segid' = _TETrace[j].segid

\* Uncomment the ASSUME below to write the states of the error trace
\* to the given file in Json format. Note that you can pass any tuple
\* to `JsonSerialize`. For example, a sub-sequence of _TETrace.
    \* ASSUME
    \*     LET J == INSTANCE Json
    \*         IN J!JsonSerialize("TraceCore_TTrace_1790978603.json", _TETrace)

=============================================================================

 Note that you can extract this module `TraceCore_TEExpression`
  to a dedicated file to reuse `expression` (the module in the 
  dedicated `TraceCore_TEExpression.tla` file takes precedence 
  over the module `TraceCore_TEExpression` below).

---- MODULE TraceCore_TEExpression ----
EXTENDS Sequences, TraceCore, TLCExt, Toolbox, Naturals, TLC

expression == 
    [
        \* To hide variables of the `TraceCore` spec from the error trace,
        \* remove the variables below.  The trace will be written in the order
        \* of the fields of this record.
        bad |-> bad
        ,done |-> done
        ,viol |-> viol
        ,l |-> l
        ,st |-> st
        ,segid |-> segid
        
        \* Put additional constant-, state-, and action-level expressions here:
        \* ,_stateNumber |-> _TEPosition
        \* ,_badUnchanged |-> bad = bad'
        
        \* Format the `bad` variable as Json value.
        \* ,_badJson |->
        \*     LET J == INSTANCE Json
        \*     IN J!ToJson(bad)
        
        \* Lastly, you may build expressions over arbitrary sets of states by
        \* leveraging the _TETrace operator.  For example, this is how to
        \* count the number of times a spec variable changed up to the current
        \* state in the trace.
        \* ,_badModCount |->
        \*     LET F[s \in DOMAIN _TETrace] ==
        \*         IF s = 1 THEN 0
        \*         ELSE IF _TETrace[s].bad # _TETrace[s-1].bad
        \*             THEN 1 + F[s-1] ELSE F[s-1]
        \*     IN F[_TEPosition - 1]
    ]

=============================================================================



Parsing and semantic processing can take forever if the trace below is long.
 In this case, it is advised to uncomment the module below to deserialize the
 trace from a generated binary file.

\*
\*---- MODULE TraceCore_TETrace ----
\*EXTENDS IOUtils, TraceCore, TLC
\*
\*trace == IODeserialize("TraceCore_TTrace_1790978603.bin", TRUE)
\*
\*=============================================================================
\*

---- MODULE TraceCore_TETrace ----
EXTENDS TraceCore, TLC

trace == 
    <<
    ([st |-> [exp |-> <<[sh |-> 0, pt |-> <<>>, rep |-> FALSE, lo |-> 0, n |-> 0, alive |-> FALSE, wt |-> <<>>, f |-> 0, seb |-> <<>>, retk |-> 0, retv |-> 0, hi |-> 0, linked |-> FALSE, qs |-> <<>>, flo |-> 0, fhi |-> 0, allq |-> <<>>], [sh |-> 0, pt |-> <<>>, rep |-> FALSE, lo |-> 0, n |-> 0, alive |-> FALSE, wt |-> <<>>, f |-> 0, seb |-> <<>>, retk |-> 0, retv |-> 0, hi |-> 0, linked |-> FALSE, qs |-> <<>>, flo |-> 0, fhi |-> 0, allq |-> <<>>], [sh |-> 0, pt |-> <<>>, rep |-> FALSE, lo |-> 0, n |-> 0, alive |-> FALSE, wt |-> <<>>, f |-> 0, seb |-> <<>>, retk |-> 0, retv |-> 0, hi |-> 0, linked |-> FALSE, qs |-> <<>>, flo |-> 0, fhi |-> 0, allq |-> <<>>], [sh |-> 0, pt |-> <<>>, rep |-> FALSE, lo |-> 0, n |-> 0, alive |-> FALSE, wt |-> <<>>, f |-> 0, seb |-> <<>>, retk |-> 0, retv |-> 0, hi |-> 0, linked |-> FALSE, qs |-> <<>>, flo |-> 0, fhi |-> 0, allq |-> <<>>], [sh |-> 0, pt |-> <<>>, rep |-> FALSE, lo |-> 0, n |-> 0, alive |-> FALSE, wt |-> <<>>, f |-> 0, seb |-> <<>>, retk |-> 0, retv |-> 0, hi |-> 0, linked |-> FALSE, qs |-> <<>>, flo |-> 0, fhi |-> 0, allq |-> <<>>], [sh |-> 0, pt |-> <<>>, rep |-> FALSE, lo |-> 0, n |-> 0, alive |-> FALSE, wt |-> <<>>, f |-> 0, seb |-> <<>>, retk |-> 0, retv |-> 0, hi |-> 0, linked |-> FALSE, qs |-> <<>>, flo |-> 0, fhi |-> 0, allq |-> <<>>]>>, mon |-> <<[nq |-> 0, n |-> 0, alive |-> FALSE, qs |-> <<>>, obj |-> 0, died |-> FALSE], [nq |-> 0, n |-> 0, alive |-> FALSE, qs |-> <<>>, obj |-> 0, died |-> FALSE], [nq |-> 0, n |-> 0, alive |-> FALSE, qs |-> <<>>, obj |-> 0, died |-> FALSE], [nq |-> 0, n |-> 0, alive |-> FALSE, qs |-> <<>>, obj |-> 0, died |-> FALSE]>>, rep |-> 1, act |-> (0 :> <<<<>>, <<>>, <<>>, <<>>>> @@ 1 :> <<<<>>, <<>>, <<>>, <<>>>> @@ 2 :> <<<<>>, <<>>, <<>>, <<>>>>), sat |-> (0 :> <<<<>>, <<>>, <<>>, <<>>>> @@ 1 :> <<<<>>, <<>>, <<>>, <<>>>> @@ 2 :> <<<<>>, <<>>, <<>>, <<>>>>), unspec |-> FALSE, obj |-> <<[alive |-> FALSE, mons |-> <<>>], [alive |-> FALSE, mons |-> <<>>], [alive |-> FALSE, mons |-> <<>>]>>, malive |-> (0 :> FALSE @@ 1 :> FALSE @@ 2 :> FALSE), pend |-> <<<<>>, <<>>, <<>>>>, qalive |-> <<FALSE, FALSE, FALSE>>, trk |-> <<>>, okrep |-> 1],bad |-> FALSE,segid |-> "",viol |-> <<>>,l |-> 1,done |-> FALSE]),
    ([st |-> [exp |-> <<[sh |-> 0, pt |-> <<>>, rep |-> FALSE, lo |-> 0, n |-> 0, alive |-> FALSE, wt |-> <<>>, f |-> 0, seb |-> <<>>, retk |-> 0, retv |-> 0, hi |-> 0, linked |-> FALSE, qs |-> <<>>, flo |-> 0, fhi |-> 0, allq |-> <<>>], [sh |-> 0, pt |-> <<>>, rep |-> FALSE, lo |-> 0, n |-> 0, alive |-> FALSE, wt |-> <<>>, f |-> 0, seb |-> <<>>, retk |-> 0, retv |-> 0, hi |-> 0, linked |-> FALSE, qs |-> <<>>, flo |-> 0, fhi |-> 0, allq |-> <<>>], [sh |-> 0, pt |-> <<>>, rep |-> FALSE, lo |-> 0, n |-> 0, alive |-> FALSE, wt |-> <<>>, f |-> 0, seb |-> <<>>, retk |-> 0, retv |-> 0, hi |-> 0, linked |-> FALSE, qs |-> <<>>, flo |-> 0, fhi |-> 0, allq |-> <<>>], [sh |-> 0, pt |-> <<>>, rep |-> FALSE, lo |-> 0, n |-> 0, alive |-> FALSE, wt |-> <<>>, f |-> 0, seb |-> <<>>, retk |-> 0, retv |-> 0, hi |-> 0, linked |-> FALSE, qs |-> <<>>, flo |-> 0, fhi |-> 0, allq |-> <<>>], [sh |-> 0, pt |-> <<>>, rep |-> FALSE, lo |-> 0, n |-> 0, alive |-> FALSE, wt |-> <<>>, f |-> 0, seb |-> <<>>, retk |-> 0, retv |-> 0, hi |-> 0, linked |-> FALSE, qs |-> <<>>, flo |-> 0, fhi |-> 0, allq |-> <<>>], [sh |-> 0, pt |-> <<>>, rep |-> FALSE, lo |-> 0, n |-> 0, alive |-> FALSE, wt |-> <<>>, f |-> 0, seb |-> <<>>, retk |-> 0, retv |-> 0, hi |-> 0, linked |-> FALSE, qs |-> <<>>, flo |-> 0, fhi |-> 0, allq |-> <<>>]>>, mon |-> <<[nq |-> 0, n |-> 0, alive |-> FALSE, qs |-> <<>>, obj |-> 0, died |-> FALSE], [nq |-> 0, n |-> 0, alive |-> FALSE, qs |-> <<>>, obj |-> 0, died |-> FALSE], [nq |-> 0, n |-> 0, alive |-> FALSE, qs |-> <<>>, obj |-> 0, died |-> FALSE], [nq |-> 0, n |-> 0, alive |-> FALSE, qs |-> <<>>, obj |-> 0, died |-> FALSE]>>, rep |-> 1, act |-> (0 :> <<<<>>, <<>>, <<>>, <<>>>> @@ 1 :> <<<<>>, <<>>, <<>>, <<>>>> @@ 2 :> <<<<>>, <<>>, <<>>, <<>>>>), sat |-> (0 :> <<<<>>, <<>>, <<>>, <<>>>> @@ 1 :> <<<<>>, <<>>, <<>>, <<>>>> @@ 2 :> <<<<>>, <<>>, <<>>, <<>>>>), unspec |-> FALSE, obj |-> <<[alive |-> FALSE, mons |-> <<>>], [alive |-> FALSE, mons |-> <<>>], [alive |-> FALSE, mons |-> <<>>]>>, malive |-> (0 :> FALSE @@ 1 :> FALSE @@ 2 :> FALSE), pend |-> <<<<>>, <<>>, <<>>>>, qalive |-> <<FALSE, FALSE, FALSE>>, trk |-> <<>>, okrep |-> 1],bad |-> FALSE,segid |-> "deathwatch-1-5",viol |-> <<>>,l |-> 2,done |-> FALSE])
    >>
----


=============================================================================

---- CONFIG TraceCore_TTrace_1790978603 ----
CONSTANTS
    NSlot = 6
    NMock = 3
    NSeq = 3
    NObj = 3
    NMon = 4
    NTr = 3
    AsIs_D1 = FALSE
    AsIs_D4 = FALSE

INVARIANT
    _inv

CHECK_DEADLOCK
    \* CHECK_DEADLOCK off because of PROPERTY or INVARIANT above.
    FALSE

INIT
    _init

NEXT
    _next

CONSTANT
    _TETrace <- _trace

ALIAS
    _expression
=============================================================================
\* Generated on Fri Oct 02 22:03:29 UTC 2026