------------------------------- MODULE Binding -------------------------------
(* C09 store model (explored by MCBinding); the expected observations of the generated program family are in BindingExpect *)
EXTENDS BindingExpect

(* ---- the store model explored by TLC (MCBinding) ---- *)
VARIABLES mode, arg, par, loc, snap, created, called, seenPlain, seenLR, hist
bvars == <<mode, arg, par, loc, snap, created, called, seenPlain, seenLR, hist>>

BInit ==
  /\ mode \in Modes \ {"none"}
  /\ arg = 100 /\ par = -1 /\ loc \in {1, 2} /\ snap = -1
  /\ created = FALSE /\ called = FALSE /\ seenPlain = -1 /\ seenLR = -1 /\ hist = <<>>

Assign(v) ==            \* the test body assigns the local, before or after creating the expectation
  /\ ~called /\ loc' = v /\ hist' = Append(hist, <<"assign", v>>)
  /\ UNCHANGED <<mode, arg, par, snap, created, called, seenPlain, seenLR>>
Create ==               \* plain clauses copy the locals they name now; LR_ clauses keep referring to them
  /\ ~created /\ created' = TRUE /\ snap' = loc /\ hist' = Append(hist, <<"create", loc>>)
  /\ UNCHANGED <<mode, arg, par, loc, called, seenPlain, seenLR>>
Call ==                 \* _i is bound to the caller's object, or to the callee's parameter for by-value passing
  /\ created /\ ~called /\ called' = TRUE
  /\ par' = IF ByValue(mode) THEN arg ELSE par
  /\ seenPlain' = snap /\ seenLR' = loc
  /\ arg' = IF Writable(mode) THEN 77 ELSE arg               \* a clause writes 77 through _i
  /\ hist' = Append(hist, <<"call", loc>>)
  /\ UNCHANGED <<mode, loc, snap, created>>
BNext == (\E v \in {1, 2, 3} : Assign(v)) \/ Create \/ Call
BSpec == BInit /\ [][BNext]_bvars

ValueAtCreate == LET cs == SelectSeq(hist, LAMBDA h : h[1] = "create") IN IF cs = <<>> THEN -1 ELSE cs[1][2]
CaptureLaw == called => (seenPlain = ValueAtCreate /\ seenLR = loc)
WriteLaw   == called => (arg = IF Writable(mode) THEN 77 ELSE 100)
ParamLaw   == called => (ByValue(mode) <=> par = 100)
=============================================================================
