--------------------------- MODULE TraceMatchers ---------------------------
(* validates recorded verdicts of the REAL matchers against Matchers!Acc / RAcc *)
EXTENDS Matchers, Json, IOUtils

TraceLog == ndJsonDeserialize(IOEnv.TRACE)
VerdictFile == IOEnv.VERDICT

VARIABLES l, viol, done
vars == <<l, viol, done>>

Bad(ev) ==
  IF ev.kind = "scalar" THEN ev.res # (IF Acc(ev.term, ev.x) THEN 1 ELSE 0)
  ELSE IF ev.kind = "desc" THEN ev.dop # ev.term.k \/ ev.dv # ev.term.v      \* a comparison matcher describes itself by its own operator and value
  ELSE ~((ev.res = 1) \in RAcc(ev.term, ev.x.r))

TraceInit == l = 1 /\ viol = <<>> /\ done = FALSE
Consume ==
  /\ l <= Len(TraceLog)
  /\ l' = l + 1 /\ done' = done
  /\ LET ev == TraceLog[l] IN
     viol' = IF Bad(ev) /\ Len(viol) < 100
             THEN Append(viol, [line |-> l, id |-> ev.id, kind |-> ev.kind, got |-> ev.res, term |-> ToString(ev.term),
                                x |-> ToString(ev.x), field |-> "verdict"])
             ELSE viol
Finish ==
  /\ l = Len(TraceLog) + 1 /\ ~done /\ done' = TRUE /\ UNCHANGED <<l, viol>>
  /\ ndJsonSerialize(VerdictFile, viol \o <<[line |-> l, id |-> -1, kind |-> "END", got |-> Len(TraceLog), term |-> "", x |-> "", field |-> "END"]>>)
TraceNext == Consume \/ Finish
TraceSpec == TraceInit /\ [][TraceNext]_vars
=============================================================================
