------------------------------- MODULE MCConc -------------------------------
(***************************************************************************)
(* C12, design level.  Threads run short programs of operations; every    *)
(* operation is the sequence of critical sections the code performs (one   *)
(* section = one Core!Step event, atomic because it runs under the global  *)
(* recursive lock).  TLC explores every interleaving of the sections and   *)
(* checks                                                                   *)
(*   LockDiscipline  no section that touches shared state runs unlocked     *)
(*   Linearizable    when all threads are done, the results every operation *)
(*                   returned are those of SOME sequential execution of the *)
(*                   same operations consistent with program order, where   *)
(*                   release / unwatch are atomic (creation sub-steps are   *)
(*                   operations of their own, as the property says).        *)
(* AsIs_D7 = TRUE restores what the pinned code did: the sequence handles   *)
(* of a released expectation are unlinked in a second, unlocked step after  *)
(* the destructor body released the lock, is_completed() and TIMES after    *)
(* IN_SEQUENCE run unlocked.  TLC must then report both properties.         *)
(***************************************************************************)
EXTENDS Core

CONSTANTS AsIs_D7, AsIs_D17, Scenarios,
          GenLen        \* scenario 0: every pair of thread programs of this length over GenAlphabet is explored

VARIABLES st, pc, sec, res, unlockedShared, scen, prog

Ev(e, a) == [e |-> e, a |-> a]
ExpA(s, sh, m, t1, lo, hi, q1) == <<s, sh, m, t1[1], t1[2], 0, 0, 0, 0, 0, 0, 0, 0, 0, 0, 0, 100 * s, lo, hi, q1, 0>>

\* ---- scenarios: prelude (sequential) and per-thread programs
\* scenario 0: a sequence with a required first entry e1 (f(0)) and an optional-then-required second entry e2 (f(1), TIMES(1,2));
\* the threads draw their operations from GenAlphabet
GenAlphabet ==
  {Ev("call", <<0, 1, 0, 0>>), Ev("call", <<0, 1, 1, 1>>), Ev("release", <<1>>), Ev("release", <<2>>),
   Ev("iscompleted", <<1>>), Ev("qsat", <<2>>), Ev("qsatur", <<2>>)}
GenPrograms == [1..GenLen -> GenAlphabet]

Prelude(n) ==
  CASE n = 0 -> <<Ev("mock", <<0>>), Ev("seq", <<1>>),
                  Ev("expect", ExpA(1, 5, 0, <<1, 0>>, 1, 1, 1)),
                  Ev("expect", ExpA(2, 5, 0, <<1, 1>>, 1, 2, 1))>>
    [] n = 1 -> <<Ev("mock", <<0>>), Ev("seq", <<1>>),
                  Ev("expect", ExpA(1, 5, 0, <<1, 0>>, 1, 1, 1)),        \* e1: f(0) first in sequence 1
                  Ev("expect", ExpA(2, 5, 0, <<1, 1>>, 1, 1, 1))>>       \* e2: f(1) second in sequence 1
    [] n = 2 -> <<Ev("mock", <<0>>), Ev("seq", <<1>>),
                  Ev("expect", ExpA(1, 5, 0, <<1, 0>>, 1, 1, 1))>>
    [] n = 3 -> <<Ev("mock", <<0>>), Ev("expect", ExpA(1, 2, 0, <<0, 0>>, 1, 1, 0))>>
    [] n = 4 -> <<Ev("mock", <<0>>), Ev("seq", <<1>>), Ev("obj", <<1>>),
                  Ev("watch", <<1, 1, 1, 1, 0>>),                        \* monitor first in sequence 1
                  Ev("expect", ExpA(2, 5, 0, <<1, 1>>, 1, 1, 1))>>
    [] n = 5 -> <<Ev("mock", <<0>>),                                        \* D17: one REQUIRE_CALL on f(int), one on v(int)
                  Ev("expect", ExpA(1, 2, 0, <<0, 0>>, 1, 1, 0)),
                  Ev("expect", ExpA(2, 50, 0, <<0, 0>>, 1, 1, 0))>>
Programs(n) ==
  CASE n = 0 -> prog
    [] n = 1 -> << <<Ev("release", <<1>>)>>,
                   <<Ev("call", <<0, 1, 0, 0>>), Ev("call", <<0, 1, 1, 1>>)>> >>
    [] n = 2 -> << <<Ev("ecreate", ExpA(2, 5, 0, <<1, 1>>, 0, 99, 1)), Ev("ereg", <<2, 1>>), Ev("elim", <<2>>), Ev("ehook", <<2, 0>>)>>,
                   <<Ev("call", <<0, 1, 1, 1>>), Ev("call", <<0, 1, 0, 0>>), Ev("iscompleted", <<1>>)>> >>
    [] n = 3 -> << <<Ev("call", <<0, 1, 0, 0>>), Ev("query", <<1>>)>>,
                   <<Ev("call", <<0, 1, 0, 0>>)>>,
                   <<Ev("call", <<0, 1, 0, 0>>)>> >>
    [] n = 4 -> << <<Ev("unwatch", <<1>>)>>,
                   <<Ev("iscompleted", <<1>>), Ev("call", <<0, 1, 1, 1>>)>> >>
    [] n = 5 -> << <<Ev("dmock", <<0>>)>>,
                   <<Ev("release", <<2>>), Ev("release", <<1>>)>> >>

allvars == <<st, pc, sec, res, unlockedShared, scen, prog>>
Threads == 1..Len(Programs(scen))

RECURSIVE FoldPre(_, _)
FoldPre(s, evs) == IF evs = <<>> THEN s ELSE FoldPre(Step(s, Head(evs)).st, Tail(evs))

\* ---- sections of an operation in the implementation
\* release / unwatch in the pinned code: section a (locked) unlinks from the mock / reports, section b (UNLOCKED)
\* unlinks the sequence handles.
\* destruction of a mock object in the code (D17): one critical section per expectation list - the mock functions in reverse
\* declaration order, for each the active list and then the saturated one.
NFns == Cardinality(Fns)
DmF(k) == NFns - ((k - 1) \div 2)
DmW(k) == (k - 1) % 2
NSec(op) == IF AsIs_D7 /\ op.e \in {"release", "unwatch"} THEN 2
            ELSE IF AsIs_D17 /\ op.e = "dmock" THEN 2 * NFns ELSE 1
Locked(op, k) == ~(AsIs_D7 /\ ((op.e \in {"release", "unwatch"} /\ k = 2) \/ op.e \in {"iscompleted", "elim"}))

ReleaseA(s, x) ==       \* destructor body: report, unlink from the mock; the handles stay in the sequences
  LET r == ReleaseStep(s, x) IN
  [st |-> [r.st EXCEPT !.exp[x] = [s.exp[x] EXCEPT !.linked = FALSE], !.pend = s.pend], obs |-> r.obs]
ReleaseB(s, x) == [st |-> [s EXCEPT !.exp[x] = DeadExp, !.pend = [q \in Seqs |-> RemoveH(s.pend[q], x)]], obs |-> Obs0]
UnwatchA(s, k) ==
  LET r == UnwatchStep(s, k) IN
  [st |-> [r.st EXCEPT !.mon[k] = [s.mon[k] EXCEPT !.obj = 0], !.pend = s.pend], obs |-> r.obs]
UnwatchB(s, k) == [st |-> [s EXCEPT !.mon[k] = DeadMon, !.pend = [q \in Seqs |-> RemoveH(s.pend[q], MonH(k))]], obs |-> Obs0]

SecStep(s, op, k) ==
  IF NSec(op) = 1 THEN Step(s, op)
  ELSE IF op.e = "dmock" THEN DestroyMockListStep(s, op.a[1], DmF(k), DmW(k), IF k = 2 * NFns THEN 1 ELSE 0)
  ELSE IF op.e = "release" THEN (IF k = 1 THEN ReleaseA(s, op.a[1]) ELSE ReleaseB(s, op.a[1]))
  ELSE (IF k = 1 THEN UnwatchA(s, op.a[1]) ELSE UnwatchB(s, op.a[1]))

Proj(o) == [acc |-> o.acc, hd |-> o.hd, q |-> o.q, skip |-> o.skip,
            reps |-> {<<o.reps[i].kind, o.reps[i].sev, o.reps[i].ent>> : i \in 1..Len(o.reps)}]
MergeLast(rs, o) == [rs EXCEPT ![Len(rs)].reps = @ \cup Proj(o).reps]    \* reports of a later section of the same operation

Init ==
  /\ scen \in Scenarios
  /\ prog \in (IF scen = 0 THEN {<<a, b>> : a \in GenPrograms, b \in GenPrograms} ELSE {<<>>})
  /\ st = FoldPre(InitSt, Prelude(scen))
  /\ pc = [t \in Threads |-> 1]
  /\ sec = [t \in Threads |-> 1]
  /\ res = [t \in Threads |-> <<>>]
  /\ unlockedShared = FALSE

Next ==
  \E t \in Threads :
     /\ pc[t] <= Len(Programs(scen)[t])
     /\ LET op == Programs(scen)[t][pc[t]]
            r  == SecStep(st, op, sec[t])
        IN  /\ st' = r.st
            /\ unlockedShared' = (unlockedShared \/ ~Locked(op, sec[t]))
            /\ res' = IF sec[t] = 1 THEN [res EXCEPT ![t] = Append(@, Proj(r.obs))]     \* the op's results come from its first section,
                       ELSE [res EXCEPT ![t] = MergeLast(@, r.obs)]                  \* reports of later sections are added
            /\ IF sec[t] < NSec(op)
               THEN sec' = [sec EXCEPT ![t] = @ + 1] /\ pc' = pc
               ELSE sec' = [sec EXCEPT ![t] = 1] /\ pc' = [pc EXCEPT ![t] = @ + 1]
     /\ scen' = scen /\ prog' = prog
Spec == Init /\ [][Next]_allvars

AllDone == \A t \in Threads : pc[t] > Len(Programs(scen)[t])

\* ---- all sequential executions consistent with program order (whole operations atomic)
RECURSIVE SeqOutcomes(_, _, _)
SeqOutcomes(s, idx, acc) ==        \* idx: next op per thread; acc: results so far per thread; returns set of result functions
  LET ready == {t \in Threads : idx[t] <= Len(Programs(scen)[t])} IN
  IF ready = {} THEN {acc}
  ELSE UNION {LET op == Programs(scen)[t][idx[t]]
                  r  == Step(s, op)
              IN  SeqOutcomes(r.st, [idx EXCEPT ![t] = @ + 1], [acc EXCEPT ![t] = Append(@, Proj(r.obs))]) : t \in ready}

Linearizable ==
  AllDone => res \in SeqOutcomes(FoldPre(InitSt, Prelude(scen)), [t \in Threads |-> 1], [t \in Threads |-> <<>>])
LockDiscipline == ~unlockedShared
=============================================================================
