------------------------------ MODULE Printing ------------------------------
(***************************************************************************)
(* C18: what trompeloeil::print() writes for an abstract value, and what   *)
(* it does to the destination stream's formatting state.                   *)
(*   value  [k, v, s, c]: k in int | str | null | coll (collections, pairs, *)
(*          tuples, maps) | opaque (n = v bytes) | custom (printer<T>) |    *)
(*          streamable (operator<<)                                         *)
(*   state  [base, fill, width, adj, xf]  (xf: showbase|uppercase|showpos|boolalpha set) *)
(***************************************************************************)
EXTENDS Integers, Sequences, TLC

HexD == <<"0", "1", "2", "3", "4", "5", "6", "7", "8", "9", "a", "b", "c", "d", "e", "f">>
Hex2(b) == HexD[(b \div 16) + 1] \o HexD[(b % 16) + 1]

\* bytes of the driver's opaque test objects Op<n> (make_op<n>() in harness/gen_print.py)
OpBytes(n) == [i \in 1..n |-> ((i - 1) * 37 + n * 11 + 5) % 256]

RECURSIVE HexBody(_, _)
HexBody(bs, i) ==
  IF i > Len(bs) THEN ""
  ELSE " 0x" \o Hex2(bs[i]) \o (IF (i - 1) % 16 = 15 THEN "\n" ELSE "") \o HexBody(bs, i + 1)
HexDump(bs) ==
  ToString(Len(bs)) \o "-byte object={" \o (IF Len(bs) > 8 THEN "\n" ELSE "") \o HexBody(bs, 1) \o " }"

RECURSIVE Render(_), JoinR(_, _)
JoinR(c, i) == IF i > Len(c) THEN "" ELSE (IF i > 1 THEN ", " ELSE "") \o Render(c[i]) \o JoinR(c, i + 1)
Render(v) ==
  CASE v.k = "int"        -> ToString(v.v)                      \* decimal, unpadded, whatever the stream carried
    [] v.k = "str"        -> v.s
    [] v.k = "null"       -> "nullptr"
    [] v.k = "coll"       -> "{ " \o JoinR(v.c, 1) \o " }"
    [] v.k = "opaque"     -> HexDump(OpBytes(v.v))
    [] v.k = "custom"     -> "CP(" \o ToString(v.v) \o ")"
    [] v.k = "streamable" -> "ST[" \o ToString(v.v) \o "]"
    [] OTHER              -> Assert(FALSE, <<"unknown value kind", v.k>>)

\* directly streamable or hex-dumped at top level: rendering is state independent and the state is restored
Leafish(v) == v.k \in {"int", "str", "opaque", "streamable"}
RECURSIVE HasCustom(_)
HasCustom(v) == v.k = "custom" \/ \E i \in 1..Len(v.c) : HasCustom(v.c[i])

\* is the output specified for value v printed to a stream in state s ?
Specified(v, s) ==
  \/ Leafish(v)
  \/ (s.width = 0 /\ (~HasCustom(v) \/ (s.base = 0 /\ s.xf = 0)))   \* padding of braces / nullptr under a width, and what a user printer does with flags, is not specified
=============================================================================
