\* MCMatchers.tla
SPECIFICATION Spec
CONSTANTS
  Vals = {0, 1, 2}
  Xs <- XsDef
  MaxRange = 3
INVARIANT Laws
INVARIANT RangeLaws
CHECK_DEADLOCK FALSE
