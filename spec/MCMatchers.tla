----------------------------- MODULE MCMatchers -----------------------------
(***************************************************************************)
(* TLC explores every (term, subject) pair of a bounded term universe and  *)
(* checks the algebraic laws the property text implies, i.e. that the      *)
(* specification of the combinators is the mathematical one:              *)
(*   !any_of == none_of, De Morgan, double negation, value == eq(value),   *)
(*   *m on null rejects / !*m on null accepts, deref(not m) on non-null =  *)
(*   not deref m, and for ranges: greedy verdict set is a singleton equal  *)
(*   to "an injective assignment exists" when element matchers are        *)
(*   pairwise non-overlapping; all_of/none_of accept the empty range.      *)
(***************************************************************************)
EXTENDS Matchers

CONSTANTS Vals, Xs, MaxRange
XsDef == -1..3

Leaf == {[k |-> kk, v |-> vv, c |-> <<>>] : kk \in {"val", "eq", "ne", "lt", "le", "gt", "ge"}, vv \in Vals}
        \cup {[k |-> "any", v |-> 0, c |-> <<>>]}
Un(k, t) == [k |-> k, v |-> 0, c |-> <<t>>]
Bin(k, a, b) == [k |-> k, v |-> 0, c |-> <<a, b>>]
Subj == {[n |-> nn, v |-> vv, f |-> <<0, 0>>, found |-> 0] : nn \in {0, 1}, vv \in Xs}
Ranges == UNION {[1..n -> Vals] : n \in 0..MaxRange}
Disjoint == {[k |-> "lt", v |-> 1, c |-> <<>>], [k |-> "eq", v |-> 1, c |-> <<>>], [k |-> "gt", v |-> 1, c |-> <<>>]}
ElemLists == UNION {[1..n -> Disjoint] : n \in 0..3}
Overlap(c) == \E i, j \in 1..Len(c) : i # j /\ \E v \in Vals : EAcc(c[i], v) /\ EAcc(c[j], v)

VARIABLES a, b, x, r, el
vars == <<a, b, x, r, el>>

Init == \/ a \in Leaf /\ b \in Leaf /\ x \in Subj /\ r = <<>> /\ el = <<>>
        \/ a \in Leaf /\ b = a /\ x = [n |-> 0, v |-> 0, f |-> <<0, 0>>, found |-> 0] /\ r \in Ranges /\ el \in ElemLists
Next == UNCHANGED vars
Spec == Init /\ [][Next]_vars

Laws ==
  /\ Acc(Un("not", Bin("any_of", a, b)), x) = Acc(Bin("none_of", a, b), x)
  /\ Acc(Un("not", Bin("all_of", a, b)), x) = Acc(Bin("any_of", Un("not", a), Un("not", b)), x)
  /\ Acc(Un("not", Un("not", a)), x) = Acc(a, x)
  /\ Acc([k |-> "val", v |-> a.v, c |-> <<>>], x) = Acc([k |-> "eq", v |-> a.v, c |-> <<>>], x)
  /\ (x.n = 1 => ~Acc(Un("deref", a), x) /\ Acc(Un("not", Un("deref", a)), x))
  /\ (x.n = 0 => Acc(Un("deref", Un("not", a)), x) = Acc(Un("not", Un("deref", a)), x))
  /\ Acc([k |-> "any_of", v |-> 0, c |-> <<>>], x) = FALSE
  /\ Acc([k |-> "all_of", v |-> 0, c |-> <<>>], x) = TRUE
  /\ Acc([k |-> "none_of", v |-> 0, c |-> <<>>], x) = TRUE

RangeLaws ==
  LET inc == RAcc([k |-> "range_includes", v |-> 0, c |-> el], r)
      per == RAcc([k |-> "range_is_permutation", v |-> 0, c |-> el], r)
  IN  /\ ~Overlap(el) => (inc = {IncludesDecl(el, r)} /\ per = {PermDecl(el, r)})
      /\ RAcc([k |-> "range_all_of", v |-> 0, c |-> <<a>>], <<>>) = {TRUE}
      /\ RAcc([k |-> "range_none_of", v |-> 0, c |-> <<a>>], <<>>) = {TRUE}
      /\ RAcc([k |-> "range_any_of", v |-> 0, c |-> <<a>>], <<>>) = {FALSE}
      /\ RAcc([k |-> "range_is", v |-> 0, c |-> el], r) \subseteq RAcc([k |-> "range_starts_with", v |-> 0, c |-> el], r) \cup {FALSE}
      /\ (TRUE \in RAcc([k |-> "range_is", v |-> 0, c |-> el], r) => TRUE \in per /\ TRUE \in inc)
=============================================================================
