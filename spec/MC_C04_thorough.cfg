\* MCCore.tla
SPECIFICATION Spec
CONSTANTS
  NSlot = 3
  NMock = 2
  NSeq = 1
  NObj = 1
  NMon = 1
  NTr = 1
  AsIs_D1 = FALSE
  AsIs_D4 = FALSE
  MShapes = {2}
  MArgs = {0}
  MTermIds = {1, 2}
  MBoundIds = {1, 2, 3, 5}
  MFns = {1}
  MaxCreate = 3
  MaxN = 3
  UseMove = TRUE
  UseDestroyMock = TRUE
  UseDestroySeq = FALSE
  UseMonitors = FALSE
  UseWith = FALSE
  UseTracers = FALSE
  UseReporters = FALSE
CONSTRAINT Bounded
INVARIANT Inv_All
CHECK_DEADLOCK FALSE
