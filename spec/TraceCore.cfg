SPECIFICATION TraceSpec
CONSTANTS
  NSlot = 6
  NMock = 4
  NSeq = 3
  NObj = 3
  NMon = 4
  NTr = 3
  AsIs_D1 = FALSE
  AsIs_D4 = FALSE
CHECK_DEADLOCK FALSE
