SPECIFICATION TraceSpec
CONSTANTS
  NSlot = 6
  NMock = 5
  NSeq = 3
  NObj = 4
  NMon = 4
  NTr = 3
  AsIs_D1 = FALSE
  AsIs_D4 = FALSE
CHECK_DEADLOCK FALSE
