------------------------------- MODULE MCCore -------------------------------
(***************************************************************************)
(* Model checking of the operational core (Core!Step) against the          *)
(* DECLARATIVE reading of the properties.  The declarative layer talks     *)
(* about histories - creation stamps, "registered before", "has been       *)
(* passed", "already named in a report", "owner object" - kept in the      *)
(* ghost record g, and never looks at the list positions the operational   *)
(* layer (and the code) use.  Every transition is checked by TransOk       *)
(* (an Assert inside Next, so that it is evaluated for every generated     *)
(* transition, also those leading to already seen states), every state by  *)
(* the invariants below.                                                    *)
(***************************************************************************)
EXTENDS Core

CONSTANTS MShapes,      \* shape ids used for new expectations (run-time bounds shapes)
          MArgs,        \* argument values of calls
          MTermIds,     \* indices into TermTab
          MBoundIds,    \* indices into BoundTab
          MFns,         \* functions that are called
          MaxCreate,    \* total number of expectations / monitors ever created
          MaxN,         \* cap on the call count of an expectation (state constraint)
          UseMove, UseDestroyMock, UseDestroySeq, UseMonitors, UseWith, UseTracers, UseReporters

VARIABLES st, g
vars == <<st, g>>

TermTab  == <<<<0, 0>>, <<1, 0>>, <<1, 1>>, <<2, 0>>>>
BoundTab == <<<<1, 1>>, <<0, INF>>, <<1, 2>>, <<0, 0>>, <<2, 2>>, <<0, 1>>, <<1, INF>>, <<2, 3>>>>

H == Slots \cup {MonH(k) : k \in Mons}

G0 == [clock |-> 0,
       stamp |-> [h \in H |-> 0],
       passed |-> [h \in H |-> {}],
       named |-> [s \in Slots |-> FALSE],
       eol |-> [s \in Slots |-> 0],
       owner |-> [s \in Slots |-> -1],
       tstamp |-> [t \in Trs |-> 0],          \* construction stamp of live tracers (0 = not alive)
       rinst |-> 1, okinst |-> 1]             \* reporter / OK reporter installed last

(* ------------------------------------------------------------------ *)
(* declarative notions                                                  *)
Alive(s, h)   == IF IsMonH(h) THEN s.mon[h - 100].alive ELSE s.exp[h].alive
QsSet(s, h)   == Range(HQs(s, h))
Satur(s, h)   == IF IsMonH(h) THEN s.mon[h - 100].died ELSE s.exp[h].n = s.exp[h].hi
Pending(s, gg, h, q) == Alive(s, h) /\ q \in QsSet(s, h) /\ ~Satur(s, h) /\ ~(q \in gg.passed[h])
Before(gg, h2, h) == gg.stamp[h2] < gg.stamp[h]
Eligible(s, gg, h) ==
  \A q \in QsSet(s, h) :
     /\ ~(q \in gg.passed[h])
     /\ \A h2 \in H : (Pending(s, gg, h2, q) /\ Before(gg, h2, h)) => HSat(s, h2)
PassOver(s, gg, h, q) == Cardinality({h2 \in H : Pending(s, gg, h2, q) /\ Before(gg, h2, h)})
DCost(s, gg, h) == IF QsSet(s, h) = {} THEN 0 ELSE Max({PassOver(s, gg, h, q) : q \in QsSet(s, h)})

OnFn(s, gg, m, f) == {e \in Slots : s.exp[e].alive /\ gg.owner[e] = m /\ s.exp[e].f = f}
Unsat(s, e)  == s.exp[e].hi = 0 \/ s.exp[e].n < s.exp[e].hi        \* a forbidding expectation still takes calls
MatchSet(s, gg, m, f, args) == {e \in OnFn(s, gg, m, f) : Unsat(s, e) /\ Matches(s, e, args)}
Cands(s, gg, m, f, args)    == {e \in MatchSet(s, gg, m, f, args) : Eligible(s, gg, e)}
Designated(s, gg, m, f, args) ==
  LET C == Cands(s, gg, m, f, args)
  IN  IF C = {} THEN 0
      ELSE CHOOSE e \in C : \A e2 \in C :
             \/ DCost(s, gg, e) < DCost(s, gg, e2)
             \/ (DCost(s, gg, e) = DCost(s, gg, e2) /\ gg.stamp[e] >= gg.stamp[e2])
SatMatch(s, gg, m, f, args) ==
  {e \in OnFn(s, gg, m, f) : s.exp[e].hi # 0 /\ s.exp[e].n = s.exp[e].hi /\ Matches(s, e, args)}

SortedByStampDesc(gg, sq) == \A i \in 1..(Len(sq) - 1) : gg.stamp[sq[i]] > gg.stamp[sq[i + 1]]
SortedByStampAsc(gg, sq)  == \A i \in 1..(Len(sq) - 1) : gg.stamp[sq[i]] < gg.stamp[sq[i + 1]]

(* ------------------------------------------------------------------ *)
(* ghost update                                                          *)
PassBefore(s, gg, h) ==    \* h has matched / happened: everything registered before it in its sequences is passed
  [gg EXCEPT !.passed = [h2 \in H |->
      gg.passed[h2] \cup {q \in QsSet(s, h) : q \in QsSet(s, h2) /\ Before(gg, h2, h)}]]

RECURSIVE PassAll(_, _, _)
PassAll(s, gg, hs) == IF hs = <<>> THEN gg ELSE PassAll(s, PassBefore(s, gg, Head(hs)), Tail(hs))

NamedBy(reps) ==
  UNION {IF reps[i].kind = "nomatch" /\ reps[i].lk = 2 THEN Range(reps[i].lst)
         ELSE IF reps[i].kind \in {"forbidden", "unfulfilled", "pending"} THEN {reps[i].ent}
         ELSE {} : i \in 1..Len(reps)}
EolOf(reps) == {reps[i].ent : i \in {j \in 1..Len(reps) : reps[j].kind \in {"unfulfilled", "pending"}}}

GhostUpdate(gg, s, op, r) ==
  LET a  == op.a
      g1 == [gg EXCEPT !.named = [x \in Slots |-> gg.named[x] \/ x \in NamedBy(r.obs.reps)],
                       !.eol = [x \in Slots |-> gg.eol[x] + (IF x \in EolOf(r.obs.reps) THEN 1 ELSE 0)]]
  IN  CASE op.e = "expect" /\ r.st.exp[a[1]].alive ->
             [g1 EXCEPT !.clock = gg.clock + 1, !.stamp[a[1]] = gg.clock + 1, !.passed[a[1]] = {},
                        !.named[a[1]] = FALSE, !.eol[a[1]] = 0, !.owner[a[1]] = a[3]]
        [] op.e = "expect" -> [g1 EXCEPT !.clock = gg.clock + 1]
        [] op.e = "watch" /\ r.obs.skip = 0 ->
             [g1 EXCEPT !.clock = gg.clock + 1, !.stamp[MonH(a[1])] = gg.clock + 1, !.passed[MonH(a[1])] = {}]
        [] op.e = "call" /\ r.obs.acc = 1 -> PassBefore(s, g1, r.obs.hd)
        [] op.e = "dobj" /\ r.obs.skip = 0 ->
             PassAll(s, g1, [i \in 1..Len(s.obj[a[1]].mons) |-> MonH(s.obj[a[1]].mons[i])])
        [] op.e = "dmock" -> [g1 EXCEPT !.owner = [x \in Slots |-> IF gg.owner[x] = a[1] THEN -1 ELSE gg.owner[x]]]
        [] op.e = "mmock" -> [g1 EXCEPT !.owner = [x \in Slots |-> IF gg.owner[x] = a[1] THEN a[2] ELSE gg.owner[x]]]
        [] op.e = "tracer" -> [g1 EXCEPT !.clock = gg.clock + 1, !.tstamp[a[1]] = gg.clock + 1]
        [] op.e = "dtracer" -> [g1 EXCEPT !.tstamp[a[1]] = 0]
        [] op.e = "setrep" -> [g1 EXCEPT !.rinst = a[1], !.okinst = IF a[2] = 1 THEN a[1] ELSE gg.okinst]
        [] OTHER -> g1

(* ------------------------------------------------------------------ *)
(* transition properties                                                 *)
Counts(s) == [x \in Slots |-> s.exp[x].n]

\* C07: a forbidding (unsequenced) expectation has no effect on calls it is not designated for
Erased(s) ==
  LET F == {x \in Slots : s.exp[x].alive /\ s.exp[x].hi = 0 /\ s.exp[x].qs = <<>>}
  IN  [s EXCEPT !.exp = [x \in Slots |-> IF x \in F THEN DeadExp ELSE s.exp[x]],
                !.act = [m \in Mocks |-> [f \in Fns |-> SelectSeq(s.act[m][f], LAMBDA y : ~(y \in F))]]]

CallOk(s, gg, m, f, args, r) ==
  LET d    == Designated(s, gg, m, f, args)
      o    == r.obs
      post == r.st
      inel == MatchSet(s, gg, m, f, args) \ Cands(s, gg, m, f, args)
      satm == SatMatch(s, gg, m, f, args)
      er   == CallStep(Erased(s), m, f, args)
  IN  /\ (o.acc = 1) <=> (d # 0 /\ s.exp[d].hi # 0)                                   \* C01
      /\ o.acc = 1 =>
           /\ o.hd = d                                                                 \* C02 (and C05: d is eligible)
           /\ post.exp[d].n = s.exp[d].n + 1                                            \* C03
           /\ \A x \in Slots \ {d} : post.exp[x].n = s.exp[x].n                          \* C02 frame
           /\ \A i \in 1..Len(o.sr) : o.sr[i][2] = d                                    \* C08
           /\ o.reps = <<>>
           /\ Len(o.oks) = 1 /\ o.oks[1].ent = d /\ o.oks[1].r = gg.okinst                \* C16
           /\ LET live == {t \in Trs : gg.tstamp[t] # 0} IN                             \* C17
              IF live = {} THEN o.trs = <<>>
              ELSE /\ Len(o.trs) = 1 /\ o.trs[1].ent = d /\ o.trs[1].args = args
                   /\ \A t \in live : gg.tstamp[o.trs[1].t] >= gg.tstamp[t]
           /\ post.exp[d].n <= post.exp[d].hi                                           \* C03
      /\ o.acc = 0 =>
           /\ Len(o.reps) = 1 /\ o.reps[1].sev = 0                                      \* C01, C15
           /\ o.sr = <<>> /\ o.oks = <<>>                                               \* C01, C16
           /\ Counts(post) = Counts(s)
           /\ post.pend = s.pend /\ post.act = s.act /\ post.sat = s.sat                \* C05: no state change
           /\ d # 0 => (o.reps[1].kind = "forbidden" /\ o.reps[1].ent = d /\ o.reps[1].args = args)   \* C07
           /\ (d = 0 /\ inel # {}) => (o.reps[1].kind = "seqmismatch" /\ o.reps[1].entset \subseteq inel /\ o.reps[1].entset # {})
           /\ (d = 0 /\ inel = {}) =>
                /\ o.reps[1].kind = "nomatch" /\ o.reps[1].args = args /\ o.reps[1].fn = f
                /\ satm # {} => (o.reps[1].lk = 1 /\ Range(o.reps[1].lst) = satm /\ Len(o.reps[1].lst) = Cardinality(satm))
                /\ satm = {} => (/\ Range(o.reps[1].lst) = {e \in OnFn(s, gg, m, f) : Unsat(s, e)}
                                 /\ SortedByStampDesc(gg, o.reps[1].lst))                \* C15: newest first
      \* C07 erasure (two-run): without the forbidding expectations the outcome is the same,
      \* unless a forbidding expectation is the designated candidate
      /\ (d = 0 \/ s.exp[d].hi # 0) =>
           /\ er.obs.acc = o.acc /\ er.obs.hd = o.hd /\ er.obs.ret = o.ret /\ er.obs.sr = o.sr
           /\ Counts(er.st) = Counts(post)

ReleaseOk(s, gg, x, r) ==
  LET e == s.exp[x]
      want == e.n < e.lo /\ ~gg.named[x]                                               \* C04
  IN  /\ Len(r.obs.reps) = B2I(want)
      /\ want => (r.obs.reps[1].kind = "unfulfilled" /\ r.obs.reps[1].sev = 1 /\ r.obs.reps[1].ent = x
                  /\ r.obs.reps[1].lo = e.lo /\ r.obs.reps[1].n = e.n)
      /\ \A q \in Seqs : ~(x \in Range(r.st.pend[q]))                                   \* C06: leaves its sequences
      /\ \A m \in Mocks : \A f \in Fns : ~(x \in Range(r.st.act[m][f])) /\ ~(x \in Range(r.st.sat[m][f]))

DestroyMockOk(s, gg, m, r) ==
  LET want == {x \in Slots : s.exp[x].alive /\ gg.owner[x] = m /\ s.exp[x].n < s.exp[x].lo /\ ~gg.named[x]}
      reps == r.obs.reps
  IN  /\ {reps[i].ent : i \in 1..Len(reps)} = want /\ Len(reps) = Cardinality(want)
      /\ \A i \in 1..Len(reps) : reps[i].kind = "pending" /\ reps[i].sev = 1
                                 /\ reps[i].lo = s.exp[reps[i].ent].lo /\ reps[i].n = s.exp[reps[i].ent].n

MoveOk(s, gg, m, m2, r) ==      \* C14: after a move the expectations behave on m2 exactly as they would have on m
  \A f \in MFns : \A x \in MArgs :
     LET args == IF f = 3 THEN <<x, x>> ELSE <<x>>
         a == CallStep(s, m, f, args)
         b == CallStep(r.st, m2, f, args)
     IN  a.obs.acc = b.obs.acc /\ a.obs.hd = b.obs.hd /\ a.obs.ret = b.obs.ret /\ a.obs.sr = b.obs.sr
         /\ Len(a.obs.reps) = Len(b.obs.reps)
         /\ (a.obs.reps # <<>> => a.obs.reps[1] = b.obs.reps[1])
         /\ Counts(a.st) = Counts(b.st) /\ a.st.pend = b.st.pend

DestroySeqOk(s, gg, q, r) ==
  LET P == {h \in H : Pending(s, gg, h, q)}
      reps == r.obs.reps
  IN  /\ Len(reps) = B2I(P # {})                                                        \* C06
      /\ P # {} => (reps[1].kind = "seq_teardown" /\ reps[1].sev = 1 /\ Range(reps[1].lst) = P
                    /\ Len(reps[1].lst) = Cardinality(P) /\ SortedByStampAsc(gg, reps[1].lst))

LiveMons(s, o) == {k \in Mons : s.mon[k].alive /\ s.mon[k].obj = o /\ ~s.mon[k].died}

DestroyObjOk(s, gg, o, r) ==
  LET L == LiveMons(s, o)
      reps == r.obs.reps
      dead == {i \in 1..Len(reps) : reps[i].kind = "unexpected_death"}
  IN  /\ (L = {}) <=> (dead # {})                                                       \* C13
      /\ Cardinality(dead) <= 1
      /\ \A i \in 1..Len(reps) : reps[i].sev = 1                                        \* C15
      /\ \A k \in L : r.st.mon[k].died /\ r.st.mon[k].n = 1
      \* C05: an ineligible destruction is reported (non-fatally), an eligible one is not
      /\ \A k \in L : (QsSet(s, MonH(k)) # {} /\ Cardinality(L) = 1) =>
             ((\E i \in 1..Len(reps) : reps[i].kind = "seqmismatch" /\ reps[i].ent = MonH(k))
               <=> ~Eligible(s, gg, MonH(k)))

UnwatchOk(s, gg, k, r) ==
  /\ Len(r.obs.reps) = B2I(~s.mon[k].died)
  /\ ~s.mon[k].died => (r.obs.reps[1].kind = "stillalive" /\ r.obs.reps[1].sev = 1 /\ r.obs.reps[1].ent = MonH(k))
  /\ \A o \in Objs : ~(k \in LiveMons(r.st, o))
  /\ \A q \in Seqs : ~(MonH(k) \in Range(r.st.pend[q]))

TransOk(s, gg, op, r) ==
  LET a == op.a IN
  CASE op.e = "call"    -> CallOk(s, gg, a[1], a[2], IF a[2] = 3 THEN <<a[3], a[4]>> ELSE <<a[3]>>, r)
    [] op.e = "release" -> ReleaseOk(s, gg, a[1], r)
    [] op.e = "dmock"   -> DestroyMockOk(s, gg, a[1], r)
    [] op.e = "mmock"   -> MoveOk(s, gg, a[1], a[2], r)
    [] op.e = "dseq"    -> DestroySeqOk(s, gg, a[1], r)
    [] op.e = "dobj"    -> DestroyObjOk(s, gg, a[1], r)
    [] op.e = "unwatch" -> UnwatchOk(s, gg, a[1], r)
    [] op.e = "expect"  -> (r.obs.thr = "logic") <=> (a[18] > a[19])                    \* C03: inverted RT_TIMES
    [] op.e = "setrep"  -> /\ r.obs.probe = (IF a[2] = 1 THEN <<gg.rinst, 100 + gg.okinst>> ELSE <<gg.rinst>>)   \* C16
                           /\ r.st.rep = a[1]
    [] OTHER -> TRUE

(* ------------------------------------------------------------------ *)
(* operations offered in a state                                         *)
FreeSlot(s) == LET F == {x \in Slots : ~s.exp[x].alive} IN IF F = {} THEN 0 ELSE Min(F)
FreeMon(s)  == LET F == {k \in Mons : ~s.mon[k].alive} IN IF F = {} THEN 0 ELSE Min(F)
AliveMocks(s) == {m \in Mocks : s.malive[m]}
AliveSeqs(s)  == {q \in Seqs : s.qalive[q]}

ExpectOps(s, gg) ==
  IF gg.clock >= MaxCreate \/ FreeSlot(s) = 0 THEN {}
  ELSE LET x == FreeSlot(s) IN
       {[e |-> "expect",
         a |-> <<x, sh, m, TermTab[t][1], TermTab[t][2], 0, 0, TermTab[w][1], TermTab[w][2], 0, 0, 0, 0, 0, 0, 0,
                 100 * x, BoundTab[b][1], BoundTab[b][2], q1, q2>>] :
          sh \in MShapes, m \in AliveMocks(s), t \in MTermIds, w \in (IF UseWith THEN MTermIds ELSE {1}),
          b \in MBoundIds, q1 \in AliveSeqs(s) \cup {0}, q2 \in AliveSeqs(s) \cup {0}}

ValidExpect(op) ==
  LET a == op.a  tab == ShapeTab[a[2]] IN
  /\ (tab.nq = 0 => (a[20] = 0 /\ a[21] = 0))
  /\ (tab.nq = 1 => (a[20] # 0 /\ a[21] = 0))
  /\ (tab.nq = 2 => (a[20] # 0 /\ a[21] # 0 /\ a[20] < a[21]))
  /\ (tab.nw = 0 => (a[8] = 0 /\ a[9] = 0))
  /\ (tab.nq > 0 => a[19] # 0)                 \* no forbidding expectation in a sequence (rejected at compile time for TIMES(0))
  /\ (a[18] <= a[19])

Ops(s, gg) ==
     {op \in ExpectOps(s, gg) : ValidExpect(op)}
  \cup {[e |-> "call", a |-> <<m, f, x, x>>] : m \in AliveMocks(s), f \in MFns, x \in MArgs}
  \cup {[e |-> "release", a |-> <<x>>] : x \in {y \in Slots : s.exp[y].alive}}
  \cup (IF UseDestroyMock THEN {[e |-> "dmock", a |-> <<m>>] : m \in AliveMocks(s)} ELSE {})
  \cup (IF UseMove THEN {[e |-> "mmock", a |-> <<m, m2>>] : m \in AliveMocks(s), m2 \in Mocks \ AliveMocks(s)} ELSE {})
  \cup (IF UseDestroySeq THEN {[e |-> "dseq", a |-> <<q>>] : q \in AliveSeqs(s)} ELSE {})
  \cup (IF UseTracers
        THEN    {[e |-> "tracer", a |-> <<t, 1>>] : t \in {t2 \in Trs : gg.tstamp[t2] = 0 /\ gg.clock < MaxCreate}}
           \cup {[e |-> "dtracer", a |-> <<t>>] : t \in {t2 \in Trs : gg.tstamp[t2] # 0}}
        ELSE {})
  \cup (IF UseReporters THEN {[e |-> "setrep", a |-> <<rr, ok>>] : rr \in {1, 2}, ok \in {0, 1}} ELSE {})
  \cup (IF UseMonitors
        THEN    {[e |-> "obj", a |-> <<o>>] : o \in {o2 \in Objs : ~s.obj[o2].alive /\ gg.clock < MaxCreate}}
           \cup (IF FreeMon(s) = 0 \/ gg.clock >= MaxCreate THEN {}
                 ELSE {[e |-> "watch", a |-> <<FreeMon(s), o, nq, q1, 0>>] :
                         o \in {o2 \in Objs : s.obj[o2].alive}, nq \in {0, 1}, q1 \in AliveSeqs(s) \cup {0}})
           \cup {[e |-> "unwatch", a |-> <<k>>] : k \in {k2 \in Mons : s.mon[k2].alive}}
           \cup {[e |-> "dobj", a |-> <<o>>] : o \in {o2 \in Objs : s.obj[o2].alive}}
        ELSE {})

ValidOp(op) == op.e # "watch" \/ (op.a[3] = 0 /\ op.a[4] = 0) \/ (op.a[3] = 1 /\ op.a[4] # 0)

(* ------------------------------------------------------------------ *)
InitMC ==
  /\ st = [InitSt EXCEPT !.malive = [m \in Mocks |-> m = 0], !.qalive = [q \in Seqs |-> TRUE]]
  /\ g = G0

Next ==
  /\ ~st.unspec
  /\ \E op \in {o \in Ops(st, g) : ValidOp(o)} :
       LET r == Step(st, op) IN
       /\ Assert(r.obs.skip = 0, <<"model offered an op whose precondition fails", op>>)
       /\ Assert(TransOk(st, g, op, r), <<"transition property violated", op, r.obs>>)
       /\ st' = r.st
       /\ g' = GhostUpdate(g, st, op, r)

Spec == InitMC /\ [][Next]_vars

Bounded == \A x \in Slots : st.exp[x].n <= MaxN

(* ------------------------------------------------------------------ *)
(* state invariants                                                      *)
Inv_C03 ==      \* never more than max; the saturated list holds exactly the saturated linked expectations
  \A x \in Slots : st.exp[x].alive =>
     /\ st.exp[x].n <= st.exp[x].hi
     /\ g.owner[x] # -1 =>
          LET m == g.owner[x]  f == st.exp[x].f IN
          /\ (x \in Range(st.sat[m][f])) <=> (st.exp[x].hi # 0 /\ st.exp[x].n = st.exp[x].hi)
          /\ (x \in Range(st.act[m][f])) <=> Unsat(st, x)

Inv_C04 == \A x \in Slots : g.eol[x] <= 1

Inv_C06 ==      \* the pending list of a sequence is exactly the declaratively pending entries, in registration order
  st.unspec \/
  \A q \in Seqs : st.qalive[q] =>
     /\ Range(st.pend[q]) = {h \in H : Pending(st, g, h, q)}
     /\ SortedByStampAsc(g, st.pend[q])
     /\ IsCompleted(st, q) = (\A h \in H : Pending(st, g, h, q) => HSat(st, h))

Inv_C13 ==      \* the object knows exactly its live, not yet released requirements
  \A o \in Objs : st.obj[o].alive =>
     /\ Range(st.obj[o].mons) = LiveMons(st, o)
     /\ Len(st.obj[o].mons) = Cardinality(LiveMons(st, o))

Inv_C14 ==      \* linkage is well formed whatever was destroyed or moved, in whatever order
  /\ \A m \in Mocks : \A f \in Fns :
        /\ ~st.malive[m] => (st.act[m][f] = <<>> /\ st.sat[m][f] = <<>>)
        /\ \A i \in 1..Len(st.act[m][f]) : LET x == st.act[m][f][i] IN
              st.exp[x].alive /\ st.exp[x].linked /\ st.exp[x].f = f /\ g.owner[x] = m
        /\ \A i \in 1..Len(st.sat[m][f]) : LET x == st.sat[m][f][i] IN
              st.exp[x].alive /\ st.exp[x].linked /\ st.exp[x].f = f /\ g.owner[x] = m
        /\ Cardinality(Range(st.act[m][f])) = Len(st.act[m][f])
        /\ Cardinality(Range(st.sat[m][f])) = Len(st.sat[m][f])
        /\ Range(st.act[m][f]) \cap Range(st.sat[m][f]) = {}
        /\ SortedByStampDesc(g, st.act[m][f])                                           \* newest first
  /\ \A x \in Slots : st.exp[x].alive =>
        (st.exp[x].linked <=> g.owner[x] # -1) /\ (g.owner[x] # -1 => st.malive[g.owner[x]])
  /\ st.unspec \/ \A q \in Seqs : \A i \in 1..Len(st.pend[q]) :
        Alive(st, st.pend[q][i]) /\ q \in QsSet(st, st.pend[q][i])
  /\ \A q \in Seqs : Cardinality(Range(st.pend[q])) = Len(st.pend[q])

Inv_C17 ==      \* the tracer stack holds exactly the live tracers, innermost (newest) last
  /\ Range(st.trk) = {t \in Trs : g.tstamp[t] # 0}
  /\ \A i \in 1..(Len(st.trk) - 1) : g.tstamp[st.trk[i]] < g.tstamp[st.trk[i + 1]]
Inv_C16 == st.rep = g.rinst /\ st.okrep = g.okinst

Inv_All == Inv_C03 /\ Inv_C04 /\ Inv_C06 /\ Inv_C13 /\ Inv_C14 /\ Inv_C16 /\ Inv_C17
=============================================================================
