------------------------------- MODULE Core -------------------------------
(***************************************************************************)
(* Operational specification of trompeloeil's run-time core, written as a  *)
(* pure function  Step(st, ev) = [st |-> st', obs |-> expected observation]*)
(* so that the model checker (MCCore), the trace validator (TraceCore) and *)
(* the concurrency model (Conc) all fold the SAME operator.                *)
(*                                                                         *)
(* One event = one public operation at critical-section granularity.      *)
(* State (anchors in the code):                                            *)
(*   exp[s]      call_matcher: bounds, count, reported, WITH/SIDE_EFFECT   *)
(*               lists, return handler, sequence handles (mock.hpp)        *)
(*   act[m][f]   expectations<>::active     newest first (push_front)      *)
(*   sat[m][f]   expectations<>::saturated  in order of saturation         *)
(*   pend[q]     sequence_type::matchers    handles still pending, in      *)
(*               registration order (sequence.hpp)                         *)
(*   obj[o].mons monitors attached to a deathwatched object (lifetime.hpp) *)
(*   trk         stack of live tracers, top = Last                         *)
(*   rep, okrep  installed reporter / OK reporter                          *)
(* The semantics is that of the properties C01..C08, C13..C17 (i.e. with   *)
(* the divergences D1..D13 of DESIGN.md section 5 repaired); the AsIs_*    *)
(* constants restore what the pinned code does, for sensitivity runs.     *)
(***************************************************************************)
EXTENDS Integers, Sequences, FiniteSets, TLC, Shapes

CONSTANTS NSlot, NMock, NSeq, NObj, NMon, NTr,
          AsIs_D1,    \* predecessors retired only once the successor is satisfied
          AsIs_D4     \* OK report names newest active expectation, sent before validation

INF     == 99         \* "no upper bound" in traces
InfCost == 1000       \* "not callable"

Slots == 1..NSlot
Mocks == 0..(NMock - 1)
Fns   == 1..7      \* 1 f(int), 2 f(string), 3 g(int,int) const, 4 void v(int), 5 z() (no parameter), 6 h(int,int,int), 7 std::string q(int)
ArgsOf(f, a, b) == CASE f = 3 -> <<a, b>> [] f = 5 -> <<>> [] f = 6 -> <<a, b, b>> [] OTHER -> <<a>>
Seqs  == 1..NSeq
Objs  == 1..NObj
Mons  == 1..NMon
Trs   == 1..NTr

NonMovableMock == 3                  \* mock id 3 is the driver's non-movable mock type (one function, f(int)); it is never moved
WatchedMock == 4                     \* mock id 4 is a deathwatched mock: it is also watched object 4 (one function, f(int)); never moved
MonH(k)   == 100 + k                 \* handle of monitor k in a sequence list
IsMonH(h) == h > 100
NPar(f)   == IF f = 3 THEN 2 ELSE 1

B2I(b) == IF b THEN 1 ELSE 0
Min(S) == CHOOSE x \in S : \A y \in S : x <= y
Max(S) == CHOOSE x \in S : \A y \in S : x >= y
Range(s) == {s[i] : i \in 1..Len(s)}
IndexOf(s, x) == IF \E i \in 1..Len(s) : s[i] = x THEN Min({i \in 1..Len(s) : s[i] = x}) ELSE 0
RemoveH(s, x) == SelectSeq(s, LAMBDA y : y # x)
DropBefore(s, x) == LET i == IndexOf(s, x) IN IF i = 0 THEN s ELSE SubSeq(s, i, Len(s))

(* ---- matcher terms of the core driver: <<op, v>> ---- *)
Accepts(t, x) ==
  CASE t[1] = 0 -> TRUE
    [] t[1] = 1 -> x = t[2]
    [] t[1] = 2 -> x # t[2]
    [] t[1] = 3 -> x < t[2]
    [] t[1] = 4 -> x <= t[2]
    [] t[1] = 5 -> x > t[2]
    [] t[1] = 6 -> x >= t[2]
    [] OTHER    -> FALSE

DeadExp == [alive |-> FALSE, sh |-> 0, f |-> 0, pt |-> <<>>, wt |-> <<>>, seb |-> <<>>,
            retk |-> 0, retv |-> 0, lo |-> 0, hi |-> 0, n |-> 0, rep |-> FALSE,
            linked |-> FALSE, qs |-> <<>>, flo |-> 0, fhi |-> 0, allq |-> <<>>, nest |-> <<-1, 0, 0, 0>>, scoped |-> FALSE]
DeadMon == [alive |-> FALSE, obj |-> 0, died |-> FALSE, n |-> 0, qs |-> <<>>, nq |-> 0, scoped |-> FALSE]

InitSt ==
  [exp    |-> [s \in Slots |-> DeadExp],
   act    |-> [m \in Mocks |-> [f \in Fns |-> <<>>]],
   sat    |-> [m \in Mocks |-> [f \in Fns |-> <<>>]],
   malive |-> [m \in Mocks |-> FALSE],
   pend   |-> [q \in Seqs |-> <<>>],
   qalive |-> [q \in Seqs |-> FALSE],
   obj    |-> [o \in Objs |-> [alive |-> FALSE, mons |-> <<>>]],
   mon    |-> [k \in Mons |-> DeadMon],
   trk    |-> <<>>,
   rep    |-> 1,
   okrep  |-> 1,
   unspec |-> FALSE]

(* ---- sequence entries (expectation or monitor) ---- *)
HLo(st, h)  == IF IsMonH(h) THEN 1 ELSE st.exp[h].lo
HN(st, h)   == IF IsMonH(h) THEN st.mon[h - 100].n ELSE st.exp[h].n
HSat(st, h) == HN(st, h) >= HLo(st, h)
HQs(st, h)  == IF IsMonH(h) THEN st.mon[h - 100].qs ELSE st.exp[h].qs

CostIn(st, q, h) ==
  LET p == st.pend[q]
      i == IndexOf(p, h)
  IN  IF i = 0 THEN InfCost
      ELSE IF \E j \in 1..(i - 1) : ~HSat(st, p[j]) THEN InfCost
      ELSE i - 1
Cost(st, h) ==
  LET qs == HQs(st, h)
  IN  IF qs = <<>> THEN 0 ELSE Max({CostIn(st, qs[i], h) : i \in 1..Len(qs)})

IsFirst(st, q, h) == st.pend[q] # <<>> /\ st.pend[q][1] = h

(* ---- matching and selection (find(), mock.hpp:2306) ---- *)
ParamsOk(x, args) == \A i \in 1..Len(x.pt) : Accepts(x.pt[i], args[i])
WArg(args) == IF args = <<>> THEN 0 ELSE args[1]       \* the conditions of a function without parameters are evaluated on 0
WithsOk(x, args)  == \A k \in 1..Len(x.wt) : Accepts(x.wt[k], WArg(args))
Matches(st, e, args) == ParamsOk(st.exp[e], args) /\ WithsOk(st.exp[e], args)

Find(st, m, f, args) ==
  LET L   == st.act[m][f]
      idx == {i \in 1..Len(L) : Matches(st, L[i], args)}
  IN  IF idx = {} THEN 0
      ELSE LET zero == {i \in idx : Cost(st, L[i]) = 0}
           IN  IF zero # {} THEN L[Min(zero)]
               ELSE LET mc == Min({Cost(st, L[i]) : i \in idx})
                    IN  L[Min({i \in idx : Cost(st, L[i]) = mc})]

(* ---- expected observations ---- *)
Obs0 == [skip |-> 0, acc |-> 1, ret |-> 0, thr |-> "", thrv |-> 0,
         reps |-> <<>>, repset |-> FALSE,   \* repset: compare reports as a set (order unspecified)
         anyreps |-> FALSE,                 \* anyreps: which reports this op sends is not specified (only their severity is)
         oks |-> <<>>, trs |-> <<>>, trck |-> TRUE, \* trck: trace records are specified for this op
         sr |-> <<>>, probe |-> <<>>, hd |-> 0,   \* hd: the expectation that handled the call
         q |-> <<-1, -1>>,                        \* result of an explicit query op
         cargs |-> <<>>, cm |-> 0, cf |-> 0,     \* the call, for the clause-log rules
         nargs |-> <<>>, nm |-> 0, nf |-> 0]     \* the nested call a side effect issued (if any)
Rp0 == [sev |-> 1, kind |-> "", ent |-> 0, fn |-> 0, args |-> <<>>, lo |-> 0, n |-> 0,
        lk |-> 0, lst |-> <<>>, det |-> <<>>, entset |-> {}, cnt |-> 1, cntmax |-> 1]
Skip(st) == [st |-> st, obs |-> [Obs0 EXCEPT !.skip = 1]]

FailMask(x, args) ==
  LET bits == [i \in 1..2 |-> IF i <= Len(x.pt) /\ ~Accepts(x.pt[i], args[i]) THEN (IF i = 1 THEN 1 ELSE 2) ELSE 0]
  IN  bits[1] + bits[2]
FirstFailWith(x, args) ==
  LET ks == {k \in 1..Len(x.wt) : ~Accepts(x.wt[k], WArg(args))}
  IN  IF ks = {} THEN 0 ELSE 10 + Min(ks)
TriedDet(st, e, args) ==
  LET x == st.exp[e] IN IF ParamsOk(x, args) THEN FirstFailWith(x, args) ELSE FailMask(x, args)

NoMatch(st, m, f, args) ==
  LET satm == SelectSeq(st.sat[m][f], LAMBDA e : Matches(st, e, args))
      A    == st.act[m][f]
      r    == IF satm # <<>>
              THEN [Rp0 EXCEPT !.sev = 0, !.kind = "nomatch", !.fn = f, !.args = args, !.lk = 1, !.lst = satm,
                               !.det = [i \in 1..Len(satm) |-> st.exp[satm[i]].sh]]
              ELSE [Rp0 EXCEPT !.sev = 0, !.kind = "nomatch", !.fn = f, !.args = args,
                               !.lk = IF A = <<>> THEN 0 ELSE 2, !.lst = A,
                               !.det = [i \in 1..Len(A) |-> TriedDet(st, A[i], args)]]
      st1  == IF satm # <<>> THEN st
              ELSE [st EXCEPT !.exp = [s \in Slots |-> IF s \in Range(A) THEN [st.exp[s] EXCEPT !.rep = TRUE] ELSE st.exp[s]]]
  IN  [st |-> st1, obs |-> [Obs0 EXCEPT !.acc = 0, !.reps = <<r>>, !.trck = FALSE, !.cargs = args, !.cm = m, !.cf = f]]

\* Side effects run in declaration order after the call was counted and OK-reported.  Behaviours of the
\* driver's effects: 0 nothing, 1 throws std::runtime_error, 2 throws int, 3 calls another mock function
\* (the lock is recursive; nesting depth is limited to one by the driver).  A nested call is a complete call
\* of its own: matched, counted, reported and traced (its trace record comes first); if it is rejected its
\* fatal report propagates out of the outer call, which has nevertheless been counted.
RECURSIVE CallStepD(_, _, _, _, _)

RunEffects(st1, x, c, depth) ==
  LET RECURSIVE Go(_, _)
      Go(k, r) ==
        IF k > Len(x.seb) \/ r.stop # "" THEN r
        ELSE LET r1 == [r EXCEPT !.sr = Append(@, <<3, c, k, 0>>)]
                 b  == x.seb[k]
             IN  IF b = 1 THEN [r1 EXCEPT !.stop = "throw", !.thr = "se", !.thrv = c * 10 + k]
                 ELSE IF b = 2 THEN [r1 EXCEPT !.stop = "throw", !.thr = "int", !.thrv = 7]
                 ELSE IF b = 3 /\ depth = 0 /\ x.nest[1] \in Mocks /\ x.nest[2] \in Fns /\ r1.st.malive[x.nest[1]]
                 THEN LET nargs == ArgsOf(x.nest[2], x.nest[3], x.nest[4])
                          inner == CallStepD(r1.st, x.nest[1], x.nest[2], nargs, 1)
                          r2 == [r1 EXCEPT !.st = inner.st, !.sr = @ \o inner.obs.sr, !.oks = @ \o inner.obs.oks,
                                           !.trs = @ \o (IF inner.obs.trck THEN inner.obs.trs ELSE <<>>),
                                           !.trck = (@ /\ inner.obs.trck),
                                           !.nargs = nargs, !.nm = x.nest[1], !.nf = x.nest[2]]
                      IN  IF inner.obs.acc = 0 THEN Go(k + 1, [r2 EXCEPT !.stop = "fatal", !.reps = inner.obs.reps])
                          ELSE IF inner.obs.thr # "" THEN Go(k + 1, [r2 EXCEPT !.stop = "throw", !.thr = inner.obs.thr, !.thrv = inner.obs.thrv])
                          ELSE Go(k + 1, r2)
                 ELSE Go(k + 1, r1)
  IN  Go(1, [st |-> st1, sr |-> <<>>, oks |-> <<>>, trs |-> <<>>, trck |-> TRUE, stop |-> "", thr |-> "", thrv |-> 0, reps |-> <<>>,
             nargs |-> <<>>, nm |-> 0, nf |-> 0])

AcceptD(st, m, f, args, c, depth) ==
  LET x     == st.exp[c]
      n1    == x.n + 1
      retire == (~AsIs_D1) \/ n1 >= x.lo
      pend1 == [q \in Seqs |-> IF q \in Range(x.qs) /\ retire THEN DropBefore(st.pend[q], c) ELSE st.pend[q]]
      satur == n1 = x.hi
      pend2 == IF satur THEN [q \in Seqs |-> RemoveH(pend1[q], c)] ELSE pend1
      act2  == IF satur THEN [st.act EXCEPT ![m][f] = RemoveH(@, c)] ELSE st.act
      sat2  == IF satur THEN [st.sat EXCEPT ![m][f] = Append(@, c)] ELSE st.sat
      st1   == [st EXCEPT !.exp[c].n = n1, !.pend = pend2, !.act = act2, !.sat = sat2]
      tr    == st.trk                                      \* the tracer is chosen when the call starts
      e     == RunEffects(st1, x, c, depth)
      thr   == IF e.stop = "throw" THEN e.thr
               ELSE IF e.stop = "fatal" THEN ""
               ELSE IF x.retk = 2 THEN "th" ELSE IF x.retk = 3 THEN "int" ELSE ""
      thrv  == IF e.stop = "throw" THEN e.thrv
               ELSE IF e.stop = "fatal" THEN 0
               ELSE IF x.retk = 2 THEN c ELSE IF x.retk = 3 THEN 40 + c ELSE 0
      sr    == IF e.stop = "" /\ x.retk # 0 THEN Append(e.sr, <<4, c, 0, 0>>) ELSE e.sr
      ret   == IF e.stop = "" /\ thr = "" /\ x.retk = 1 THEN x.retv ELSE 0
      tres  == IF e.stop = "fatal" THEN "unk"
               ELSE IF thr = "" THEN (IF x.retk = 1 THEN "val" ELSE "void")
               ELSE IF thr = "int" THEN "unk" ELSE thr
      tresv == IF e.stop = "fatal" THEN 0 ELSE IF thr = "" THEN ret ELSE IF thr = "int" THEN 0 ELSE thrv
      own   == IF tr = <<>> THEN <<>>
               ELSE <<[t |-> tr[Len(tr)], ent |-> c, sh |-> x.sh, args |-> args, res |-> tres, resv |-> tresv]>>
      okent == IF AsIs_D4 THEN st.act[m][f][1] ELSE c
  IN  [st |-> e.st,
       obs |-> [Obs0 EXCEPT !.acc = IF e.stop = "fatal" THEN 0 ELSE 1,
                            !.ret = ret, !.thr = thr, !.thrv = thrv, !.sr = sr, !.trs = e.trs \o own, !.trck = e.trck, !.hd = c,
                            !.reps = e.reps,
                            !.oks = <<[r |-> st.okrep, ent |-> okent]>> \o e.oks, !.cargs = args, !.cm = m, !.cf = f,
                            !.nargs = e.nargs, !.nm = e.nm, !.nf = e.nf]]

CallStepD(st, m, f, args, depth) ==
  LET c == Find(st, m, f, args)
  IN  IF c = 0 THEN NoMatch(st, m, f, args)
      ELSE LET x == st.exp[c]
               rej(r, s1) == [st |-> s1, obs |-> [Obs0 EXCEPT !.acc = 0, !.reps = <<r>>, !.trck = FALSE,
                                                   !.cargs = args, !.cm = m, !.cf = f,
                                                   !.oks = IF AsIs_D4 THEN <<[r |-> st.okrep, ent |-> st.act[m][f][1]]>> ELSE <<>>]]
           IN  IF x.hi = 0
               THEN rej([Rp0 EXCEPT !.sev = 0, !.kind = "forbidden", !.ent = c, !.args = args],
                        [st EXCEPT !.exp[c].rep = TRUE])
               ELSE IF Cost(st, c) >= InfCost
               THEN \* all matching candidates are ineligible; which of them is blamed is not specified
                    rej([Rp0 EXCEPT !.sev = 0, !.kind = "seqmismatch",
                                    !.entset = {e \in Range(st.act[m][f]) : Matches(st, e, args)}], st)
               ELSE AcceptD(st, m, f, args, c, depth)

CallStep(st, m, f, args) == CallStepD(st, m, f, args, 0)
Accept(st, m, f, args, c) == AcceptD(st, m, f, args, c, 0)

(* ---- expectation life cycle ---- *)
Unfulfilled(x) == x.linked /\ ~x.rep /\ x.n < x.lo

ExpectStep(st, a) ==
  LET s   == a[1]
      shp == a[2]
      m   == a[3]
  IN  IF ~(s \in Slots /\ shp \in ShapeIds /\ m \in Mocks) THEN Skip(st)
      ELSE IF st.exp[s].alive \/ ~st.malive[m] THEN Skip(st)
      ELSE
      LET tab == ShapeTab[shp]
          \* rtk: 0 compile-time bounds, 1 RT_TIMES(lo, hi), 2 RT_TIMES(hi) = exactly hi, 3 RT_TIMES(AT_LEAST(lo)), 4 RT_TIMES(AT_MOST(hi))
          lo  == CASE tab.rtk = 0 -> tab.lo [] tab.rtk = 1 -> a[18] [] tab.rtk = 2 -> a[19] [] tab.rtk = 3 -> a[18] [] OTHER -> 0
          hi  == CASE tab.rtk = 0 -> tab.hi [] tab.rtk = 1 -> a[19] [] tab.rtk = 2 -> a[19] [] tab.rtk = 3 -> 99 [] OTHER -> a[19]
          qs  == SubSeq(<<a[20], a[21], 6 - a[20] - a[21]>>, 1, tab.nq)      \* IN_SEQUENCE of all three: the third is the remaining one
          pt0 == SubSeq(<<<<a[4], a[5]>>, <<a[6], a[7]>>, <<0, 0>>>>, 1, tab.npar)
          pt  == CASE tab.pm = 0 -> pt0
                   [] tab.pm = 2 -> <<<<1, 1>>>>
                   [] OTHER      -> <<<<0, 0>>>>
          wt  == SubSeq(<<<<a[8], a[9]>>, <<a[10], a[11]>>, <<a[12], a[13]>>>>, 1, tab.nw)
          seb == SubSeq(<<a[14], a[15], a[16]>>, 1, tab.ns)
      IN  IF \E i \in 1..Len(qs) : ~(qs[i] \in Seqs) \/ ~st.qalive[qs[i]] THEN Skip(st)
          ELSE IF tab.rt /\ lo > hi
          THEN \* RT_TIMES throws std::logic_error: no expectation, no sequence registration left behind
               [st |-> st, obs |-> [Obs0 EXCEPT !.thr = "logic"]]
          ELSE [st |-> [st EXCEPT
                   !.exp[s] = [alive |-> TRUE, sh |-> shp, f |-> tab.fn, pt |-> pt, wt |-> wt, seb |-> seb,
                               retk |-> tab.retk, retv |-> a[17], lo |-> lo, hi |-> hi, n |-> 0,
                               rep |-> FALSE, linked |-> TRUE, qs |-> qs, flo |-> lo, fhi |-> hi, allq |-> qs,
                               nest |-> IF Len(a) >= 25 THEN <<a[22], a[23], a[24], a[25]>> ELSE <<-1, 0, 0, 0>>,
                               scoped |-> FALSE],
                   !.act[m][tab.fn] = <<s>> \o @,
                   !.pend = [q \in Seqs |-> IF q \in Range(qs) THEN Append(st.pend[q], s) ELSE st.pend[q]]],
                obs |-> Obs0]

(* ---- creation of an expectation as the separate critical sections the code takes (C12):          *)
(* the expectation object exists (ecreate), each IN_SEQUENCE registration (ereg), the TIMES / RT_TIMES  *)
(* clause (elim), and finally hooking it into the mock (ehook) are linearization points of their own;  *)
(* it takes part in its sequences from ereg on, with the bounds given so far, and is callable from ehook on *)
ECreateStep(st, a) ==
  LET r == ExpectStep(st, a) IN
  IF r.obs.skip = 1 \/ r.obs.thr # "" THEN r
  ELSE LET s == a[1]  x == r.st.exp[s] IN
       [st |-> [st EXCEPT !.exp[s] = [x EXCEPT !.lo = 1, !.hi = 1, !.linked = FALSE, !.qs = <<>>]], obs |-> Obs0]
ERegStep(st, s, idx) ==
  IF ~(s \in Slots) \/ ~st.exp[s].alive \/ ~(idx \in 1..Len(st.exp[s].allq)) THEN Skip(st)
  ELSE LET q == st.exp[s].allq[idx] IN
       [st |-> [st EXCEPT !.exp[s].qs = Append(@, q), !.pend[q] = Append(@, s)], obs |-> Obs0]
ELimStep(st, s) ==
  IF ~(s \in Slots) \/ ~st.exp[s].alive THEN Skip(st)
  ELSE [st |-> [st EXCEPT !.exp[s].lo = st.exp[s].flo, !.exp[s].hi = st.exp[s].fhi], obs |-> Obs0]
EHookStep(st, s, m) ==
  IF ~(s \in Slots) \/ ~st.exp[s].alive \/ ~(m \in Mocks) THEN Skip(st)
  ELSE [st |-> [st EXCEPT !.exp[s].linked = TRUE, !.act[m][st.exp[s].f] = <<s>> \o @], obs |-> Obs0]

MissRep(kind, s, x) == [Rp0 EXCEPT !.kind = kind, !.ent = s, !.lo = x.lo, !.n = x.n]

ReleaseStep(st, s) ==
  IF ~(s \in Slots) THEN Skip(st) ELSE
  LET x == st.exp[s] IN
  IF ~x.alive THEN Skip(st)
  ELSE [st |-> [st EXCEPT
           !.exp[s] = DeadExp,
           !.act = [m \in Mocks |-> [f \in Fns |-> RemoveH(st.act[m][f], s)]],
           !.sat = [m \in Mocks |-> [f \in Fns |-> RemoveH(st.sat[m][f], s)]],
           !.pend = [q \in Seqs |-> RemoveH(st.pend[q], s)]],
        obs |-> [Obs0 EXCEPT !.reps = IF Unfulfilled(x) THEN <<MissRep("unfulfilled", s, x)>> ELSE <<>>]]

SeqToSetSeq(S) ==   \* some enumeration of a finite set of integers, ascending
  LET RECURSIVE Enum(_)
      Enum(T) == IF T = {} THEN <<>> ELSE <<Min(T)>> \o Enum(T \ {Min(T)})
  IN  Enum(S)

DestroyMockStep(st, m) ==
  IF ~(m \in Mocks) THEN Skip(st) ELSE
  IF ~st.malive[m] THEN Skip(st)
  ELSE LET owned == UNION {Range(st.act[m][f]) \cup Range(st.sat[m][f]) : f \in Fns}
           miss  == {s \in owned : Unfulfilled(st.exp[s])}
           ms    == SeqToSetSeq(miss)
       IN  [st |-> [st EXCEPT
                !.malive[m] = FALSE,
                !.act[m] = [f \in Fns |-> <<>>],
                !.sat[m] = [f \in Fns |-> <<>>],
                !.exp = [s \in Slots |-> IF s \in owned
                                         THEN [st.exp[s] EXCEPT !.linked = FALSE, !.rep = (@ \/ s \in miss)]
                                         ELSE st.exp[s]]],
            obs |-> [Obs0 EXCEPT !.reps = [i \in 1..Len(ms) |-> MissRep("pending", ms[i], st.exp[ms[i]])],
                                 !.repset = TRUE]]

\* One of the critical sections of a mock object's destruction: each mock function's active list and then its saturated
\* list is decommissioned under its own acquisition of the lock (other threads may release expectations in between).
DestroyMockListStep(st, m, f, which, final) ==
  IF ~(m \in Mocks /\ f \in Fns /\ which \in {0, 1}) THEN Skip(st) ELSE
  IF ~st.malive[m] THEN Skip(st)
  ELSE LET owned == Range(IF which = 0 THEN st.act[m][f] ELSE st.sat[m][f])
           miss  == {s \in owned : Unfulfilled(st.exp[s])}
           ms    == SeqToSetSeq(miss)
       IN  [st |-> [st EXCEPT
                !.malive[m] = (final # 1),
                !.act[m][f] = IF which = 0 THEN <<>> ELSE @,
                !.sat[m][f] = IF which = 1 THEN <<>> ELSE @,
                !.exp = [s \in Slots |-> IF s \in owned
                                         THEN [st.exp[s] EXCEPT !.linked = FALSE, !.rep = (@ \/ s \in miss)]
                                         ELSE st.exp[s]]],
            obs |-> [Obs0 EXCEPT !.reps = [i \in 1..Len(ms) |-> MissRep("pending", ms[i], st.exp[ms[i]])],
                                 !.repset = TRUE]]

MoveMockStep(st, m, m2) ==
  IF ~(m \in Mocks /\ m2 \in Mocks) THEN Skip(st) ELSE
  IF ~st.malive[m] \/ st.malive[m2] \/ m \in {NonMovableMock, WatchedMock} \/ m2 \in {NonMovableMock, WatchedMock} THEN Skip(st)
  ELSE [st |-> [st EXCEPT !.malive[m2] = TRUE,
                          !.act[m2] = st.act[m], !.sat[m2] = st.sat[m],
                          !.act[m] = [f \in Fns |-> <<>>], !.sat[m] = [f \in Fns |-> <<>>]],
        obs |-> Obs0]

(* ---- sequences ---- *)
AliveHandlesOf(st, q) ==
  {s \in Slots : st.exp[s].alive /\ q \in Range(st.exp[s].qs)} \cup
  {MonH(k) : k \in {k2 \in Mons : st.mon[k2].alive /\ q \in Range(st.mon[k2].qs)}}

DestroySeqStep(st, q) ==
  IF ~(q \in Seqs) THEN Skip(st) ELSE
  IF ~st.qalive[q] THEN Skip(st)
  ELSE LET p == st.pend[q]
           \* the sequence object is gone: it no longer constrains anything.  Entries that are still alive simply leave it
           \* (sequence_matcher::orphan): their eligibility is decided by the sequences that remain, or by nothing.
           Leave(qs) == SelectSeq(qs, LAMBDA x : x # q)
       IN  [st |-> [st EXCEPT !.qalive[q] = FALSE, !.pend[q] = <<>>,
                              !.exp = [s \in Slots |-> IF st.exp[s].alive THEN [st.exp[s] EXCEPT !.qs = Leave(@)] ELSE st.exp[s]],
                              !.mon = [k \in Mons |-> IF st.mon[k].alive THEN [st.mon[k] EXCEPT !.qs = Leave(@)] ELSE st.mon[k]]],
            obs |-> [Obs0 EXCEPT !.reps = IF p = <<>> THEN <<>>
                                          ELSE <<[Rp0 EXCEPT !.kind = "seq_teardown", !.lst = p]>>]]

IsCompleted(st, q) == \A i \in 1..Len(st.pend[q]) : HSat(st, st.pend[q][i])

(* ---- deathwatched objects and lifetime monitors ---- *)
WCreateStep(st, k, o) ==      \* the monitor exists and the object knows it; sequence registration follows (wreg)
  IF ~(k \in Mons /\ o \in Objs) THEN Skip(st) ELSE
  IF st.mon[k].alive \/ ~st.obj[o].alive THEN Skip(st)
  ELSE [st |-> [st EXCEPT !.mon[k] = [alive |-> TRUE, obj |-> o, died |-> FALSE, n |-> 0, qs |-> <<>>, nq |-> 0, scoped |-> FALSE],
                          !.obj[o].mons = <<k>> \o @],
        obs |-> Obs0]
WRegStep(st, k, q) ==
  IF ~(k \in Mons /\ q \in Seqs) \/ ~st.mon[k].alive THEN Skip(st)
  ELSE [st |-> [st EXCEPT !.mon[k].qs = Append(@, q), !.mon[k].nq = @ + 1, !.pend[q] = Append(@, MonH(k))], obs |-> Obs0]

WatchStep(st, a) ==
  LET k == a[1]  o == a[2]  nq == a[3] IN
  IF ~(k \in Mons /\ o \in Objs /\ nq \in 0..2) THEN Skip(st) ELSE
  LET qs == SubSeq(<<a[4], a[5]>>, 1, nq) IN
  IF st.mon[k].alive \/ ~st.obj[o].alive \/ (\E i \in 1..nq : ~(qs[i] \in Seqs) \/ ~st.qalive[qs[i]]) THEN Skip(st)
  ELSE [st |-> [st EXCEPT
           !.mon[k] = [alive |-> TRUE, obj |-> o, died |-> FALSE, n |-> 0, qs |-> qs, nq |-> nq, scoped |-> FALSE],
           !.obj[o].mons = <<k>> \o @,
           !.pend = [q \in Seqs |-> IF q \in Range(qs) THEN Append(st.pend[q], MonH(k)) ELSE st.pend[q]]],
        obs |-> Obs0]

UnwatchStep(st, k) ==
  IF ~(k \in Mons) THEN Skip(st) ELSE
  LET x == st.mon[k] IN
  IF ~x.alive THEN Skip(st)
  ELSE [st |-> [st EXCEPT
           !.mon[k] = DeadMon,
           !.obj = [o \in Objs |-> [st.obj[o] EXCEPT !.mons = RemoveH(@, k)]],
           !.pend = [q \in Seqs |-> RemoveH(st.pend[q], MonH(k))]],
        obs |-> [Obs0 EXCEPT !.reps = IF ~x.died THEN <<[Rp0 EXCEPT !.kind = "stillalive", !.ent = MonH(k)]>> ELSE <<>>]]

\* the monitors of o are notified newest first; each notification is the sequence protocol of C05
RECURSIVE NotifyAll(_, _, _)
NotifyAll(st, ks, reps) ==
  IF ks = <<>> THEN [st |-> st, reps |-> reps]
  ELSE LET k    == Head(ks)
           h    == MonH(k)
           x    == st.mon[k]
           viol == {i \in 1..Len(x.qs) : CostIn(st, x.qs[i], h) >= InfCost}      \* violated sequences
           nf   == {i \in 1..Len(x.qs) : ~IsFirst(st, x.qs[i], h)}               \* sequences where not first
           r    == IF viol = {} THEN <<>>
                   ELSE <<[Rp0 EXCEPT !.kind = "seqmismatch", !.ent = h, !.cnt = Cardinality(viol), !.cntmax = Cardinality(nf)]>>
           pend1 == [q \in Seqs |-> IF q \in Range(x.qs) THEN RemoveH(DropBefore(st.pend[q], h), h) ELSE st.pend[q]]
           st1  == [st EXCEPT !.mon[k].died = TRUE, !.mon[k].n = 1, !.pend = pend1]
       IN  NotifyAll(st1, Tail(ks), reps \o r)

DestroyObjStep(st, o) ==
  IF ~(o \in Objs) THEN Skip(st) ELSE
  IF ~st.obj[o].alive THEN Skip(st)
  ELSE LET ks == st.obj[o].mons
       IN  IF ks = <<>>
           THEN [st |-> [st EXCEPT !.obj[o].alive = FALSE],
                 obs |-> [Obs0 EXCEPT !.reps = <<[Rp0 EXCEPT !.kind = "unexpected_death"]>>]]
           ELSE LET r == NotifyAll(st, ks, <<>>)
                    \* the order in which several requirements of one object are notified is not specified; it only
                    \* matters when two of them share a sequence: then what follows is compared for safety only
                    shared == \E i, j \in 1..Len(ks) : i # j /\ Range(st.mon[ks[i]].qs) \cap Range(st.mon[ks[j]].qs) # {}
                IN  IF shared
                    THEN [st |-> [r.st EXCEPT !.obj[o] = [alive |-> FALSE, mons |-> <<>>], !.unspec = TRUE],
                          obs |-> [Obs0 EXCEPT !.reps = <<>>, !.anyreps = TRUE]]
                    ELSE [st |-> [r.st EXCEPT !.obj[o] = [alive |-> FALSE, mons |-> <<>>]],
                          obs |-> [Obs0 EXCEPT !.reps = r.reps]]

NewObjFromStep(st, o, o2) ==      \* copy or move construction of o2 from o: the requirement is not inherited
  IF ~(o \in Objs /\ o2 \in Objs) THEN Skip(st) ELSE
  IF ~st.obj[o].alive \/ st.obj[o2].alive THEN Skip(st)
  ELSE [st |-> [st EXCEPT !.obj[o2] = [alive |-> TRUE, mons |-> <<>>]], obs |-> Obs0]

AssignObjStep(st, o, o2) ==       \* assignment: everybody keeps their own requirements
  IF ~(o \in Objs /\ o2 \in Objs) THEN Skip(st) ELSE
  IF ~st.obj[o].alive \/ ~st.obj[o2].alive THEN Skip(st)
  ELSE [st |-> st, obs |-> Obs0]

(* ---- the step function ---- *)
Step(st, ev) ==
  LET a == ev.a IN
  CASE ev.e = "mock"    -> IF a[1] \in Mocks /\ ~st.malive[a[1]]
                           THEN (IF a[1] = WatchedMock /\ WatchedMock \in Objs
                                 THEN [st |-> [st EXCEPT !.malive[a[1]] = TRUE, !.obj[WatchedMock] = [alive |-> TRUE, mons |-> <<>>]], obs |-> Obs0]
                                 ELSE [st |-> [st EXCEPT !.malive[a[1]] = TRUE], obs |-> Obs0])
                           ELSE Skip(st)
    [] ev.e = "seq"     -> IF a[1] \in Seqs /\ ~st.qalive[a[1]]
                           THEN [st |-> [st EXCEPT !.qalive[a[1]] = TRUE, !.pend[a[1]] = <<>>], obs |-> Obs0] ELSE Skip(st)
    [] ev.e = "expect"  -> ExpectStep(st, a)
    [] ev.e = "sexpect" -> \* scoped macro form: same expectation; it is a local of a block, so its flags cannot be queried
                           LET r == ExpectStep(st, a) IN
                           IF r.obs.skip = 1 \/ r.obs.thr # "" THEN r
                           ELSE [st |-> [r.st EXCEPT !.exp[a[1]].scoped = TRUE], obs |-> r.obs]
    [] ev.e = "swatch"  -> LET r == WatchStep(st, a) IN
                           IF r.obs.skip = 1 THEN r ELSE [st |-> [r.st EXCEPT !.mon[a[1]].scoped = TRUE], obs |-> r.obs]
    [] ev.e = "call"    -> IF a[1] \in Mocks /\ a[2] \in Fns /\ st.malive[a[1]] /\ (~(a[1] \in {NonMovableMock, WatchedMock}) \/ a[2] = 1)
                           THEN CallStep(st, a[1], a[2], ArgsOf(a[2], a[3], a[4]))
                           ELSE Skip(st)
    [] ev.e = "release" -> ReleaseStep(st, a[1])
    [] ev.e = "dmock"   -> IF a[1] = WatchedMock /\ WatchedMock \in Objs /\ a[1] \in Mocks /\ st.malive[a[1]]
                           THEN \* the deathwatched part goes first (derived destructor), then the mock part
                                LET r1 == DestroyObjStep(st, WatchedMock)
                                    r2 == DestroyMockStep(r1.st, WatchedMock)
                                IN  [st |-> r2.st, obs |-> [r2.obs EXCEPT !.reps = r1.obs.reps \o r2.obs.reps, !.anyreps = r1.obs.anyreps]]
                           ELSE DestroyMockStep(st, a[1])
    [] ev.e = "dmlist"  -> DestroyMockListStep(st, a[1], a[2], a[3], a[4])
    [] ev.e = "mmock"   -> MoveMockStep(st, a[1], a[2])
    [] ev.e = "dseq"    -> DestroySeqStep(st, a[1])
    [] ev.e = "obj"     -> IF a[1] \in Objs /\ ~st.obj[a[1]].alive
                           THEN [st |-> [st EXCEPT !.obj[a[1]] = [alive |-> TRUE, mons |-> <<>>]], obs |-> Obs0] ELSE Skip(st)
    [] ev.e = "watch"   -> WatchStep(st, a)
    [] ev.e = "unwatch" -> UnwatchStep(st, a[1])
    [] ev.e = "dobj"    -> DestroyObjStep(st, a[1])
    [] ev.e \in {"cpobj", "cpobjn", "mvobj"}   -> NewObjFromStep(st, a[1], a[2])
    [] ev.e \in {"asobj", "masobj"}  -> AssignObjStep(st, a[1], a[2])
    [] ev.e = "tracer"  -> IF a[1] \in Trs /\ ~(a[1] \in Range(st.trk))
                           THEN [st |-> [st EXCEPT !.trk = Append(@, a[1])], obs |-> Obs0] ELSE Skip(st)
    [] ev.e = "dtracer" -> IF a[1] \in Range(st.trk)
                           THEN [st |-> [st EXCEPT !.trk = RemoveH(@, a[1])], obs |-> Obs0] ELSE Skip(st)
    [] ev.e = "setrep"  -> [st |-> [st EXCEPT !.rep = a[1], !.okrep = IF a[2] = 1 THEN a[1] ELSE @],
                            obs |-> [Obs0 EXCEPT !.probe = IF a[2] = 1 THEN <<st.rep, 100 + st.okrep>> ELSE <<st.rep>>]]
    [] ev.e = "nop"     -> [st |-> st, obs |-> Obs0]
    [] ev.e = "ecreate" -> ECreateStep(st, a)
    [] ev.e = "ereg"    -> ERegStep(st, a[1], a[2])
    [] ev.e = "elim"    -> ELimStep(st, a[1])
    [] ev.e = "ehook"   -> EHookStep(st, a[1], a[2])
    [] ev.e = "wcreate" -> WCreateStep(st, a[1], a[2])
    [] ev.e = "wreg"    -> WRegStep(st, a[1], a[2])
    [] ev.e = "query"   -> IF a[1] \in Slots /\ st.exp[a[1]].alive
                           THEN [st |-> st, obs |-> [Obs0 EXCEPT !.q = <<B2I(st.exp[a[1]].n >= st.exp[a[1]].lo), B2I(st.exp[a[1]].n = st.exp[a[1]].hi)>>]]
                           ELSE Skip(st)
    [] ev.e = "qsat"    -> IF a[1] \in Slots /\ st.exp[a[1]].alive       \* is_satisfied() alone (its own critical section)
                           THEN [st |-> st, obs |-> [Obs0 EXCEPT !.q = <<B2I(st.exp[a[1]].n >= st.exp[a[1]].lo), -1>>]]
                           ELSE Skip(st)
    [] ev.e = "qsatur"  -> IF a[1] \in Slots /\ st.exp[a[1]].alive       \* is_saturated() alone
                           THEN [st |-> st, obs |-> [Obs0 EXCEPT !.q = <<-1, B2I(st.exp[a[1]].n = st.exp[a[1]].hi)>>]]
                           ELSE Skip(st)
    [] ev.e = "mquery"  -> IF a[1] \in Mons /\ st.mon[a[1]].alive
                           THEN [st |-> st, obs |-> [Obs0 EXCEPT !.q = <<B2I(st.mon[a[1]].died), B2I(st.mon[a[1]].died)>>]]
                           ELSE Skip(st)
    [] ev.e = "mqueryx" -> \* unlocked read of a monitor's atomic flag from a thread that does not own the object:
                           \* it may take effect anywhere between the surrounding critical sections, the value is not constrained here
                           [st |-> st, obs |-> Obs0]
    [] ev.e = "iscompleted" -> IF a[1] \in Seqs /\ st.qalive[a[1]]
                           THEN [st |-> st, obs |-> [Obs0 EXCEPT !.q = <<B2I(IsCompleted(st, a[1])), -1>>]]
                           ELSE Skip(st)
    [] OTHER            -> Skip(st)

(* ---- projected state, as the public API shows it ---- *)
Flags(st) ==
  LET S == {s \in Slots : st.exp[s].alive /\ ~st.exp[s].scoped}
      ss == SeqToSetSeq(S)
  IN  [i \in 1..Len(ss) |-> <<ss[i], B2I(st.exp[ss[i]].n >= st.exp[ss[i]].lo), B2I(st.exp[ss[i]].n = st.exp[ss[i]].hi)>>]
MonFlags(st) ==
  LET ks == SeqToSetSeq({k \in Mons : st.mon[k].alive /\ ~st.mon[k].scoped})
  IN  [i \in 1..Len(ks) |-> <<ks[i], B2I(st.mon[ks[i]].died), B2I(st.mon[ks[i]].died)>>]
Completed(st) ==
  LET qs == SeqToSetSeq({q \in Seqs : st.qalive[q]})
  IN  [i \in 1..Len(qs) |-> <<qs[i], B2I(IsCompleted(st, qs[i]))>>]
=============================================================================
