\* MCCore.tla
SPECIFICATION Spec
CONSTANTS
  NSlot = 2
  NMock = 1
  NSeq = 1
  NObj = 1
  NMon = 1
  NTr = 1
  AsIs_D1 = FALSE
  AsIs_D4 = FALSE
  MShapes = {3}
  MArgs = {0, 1}
  MTermIds = {1, 2, 3}
  MBoundIds = {1, 2}
  MFns = {1}
  MaxCreate = 3
  MaxN = 3
  UseMove = FALSE
  UseDestroyMock = FALSE
  UseDestroySeq = FALSE
  UseMonitors = FALSE
  UseWith = TRUE
  UseTracers = FALSE
  UseReporters = FALSE
CONSTRAINT Bounded
INVARIANT Inv_All
CHECK_DEADLOCK FALSE
