------------------------------- MODULE MCCoro -------------------------------
(* TLC explores Coro!Step over a bounded universe and checks the declarative reading of C20 on every transition *)
EXTENDS Coro
CONSTANTS MKinds, MaxNy, MaxCreate, MBn
BoundTab == <<<<1, 1>>, <<0, 99>>, <<1, 2>>>>
VARIABLES st, g
vars == <<st, g>>
\* ghost: values each instance has produced so far, number of expectations created
G0 == [seen |-> [i \in Insts |-> <<>>], made |-> 0, stamp |-> [s \in Slots |-> 0]]

Ops(s, gg) ==
     (IF gg.made < MaxCreate /\ \E x \in Slots : ~s.exp[x].alive
      THEN LET x == Min({y \in Slots : ~s.exp[y].alive}) IN
           {[e |-> "cexpect", a |-> <<x, k, ny, rk, 11, 22, 33, yt, 100 * x, b[1], b[2]>>] :
              k \in MKinds, ny \in 0..MaxNy, rk \in 1..3, yt \in 0..MaxNy, b \in {BoundTab[j] : j \in 1..MBn}}
      ELSE {})
  \cup {[e |-> "ccall", a |-> <<i, k>>] : i \in {j \in Insts : ~s.inst[j].alive}, k \in MKinds}
  \cup {[e |-> "resume", a |-> <<i>>] : i \in {j \in Insts : s.inst[j].alive /\ s.inst[j].st \in {0, 1}}}
  \cup {[e |-> "idestroy", a |-> <<i>>] : i \in {j \in Insts : s.inst[j].alive}}
  \cup {[e |-> "crelease", a |-> <<x>>] : x \in {y \in Slots : s.exp[y].alive /\ ~\E i \in Insts : s.inst[i].alive /\ s.inst[i].slot = y}}
Valid(op) == op.e # "cexpect" \/
             LET a == op.a IN (CanYield(a[2]) \/ a[3] = 0) /\ a[8] <= a[3] /\ (Valued(a[2]) \/ a[4] # 3)

Yielded(o) == SelectSeq(o.cl, LAMBDA c : c[1] = 5)
Others(s, i) == [j \in Insts \ {i} |-> s.inst[j]]

TransOk(s, gg, op, r) ==
  LET a == op.a  o == r.obs  post == r.st IN
  CASE op.e = "ccall" ->
         LET k == a[2]  i == a[1]
             live == {x \in Slots : s.exp[x].alive /\ s.exp[x].kind = k /\ s.exp[x].n < s.exp[x].hi}
             want == IF live = {} THEN 0 ELSE CHOOSE x \in live : \A y \in live : gg.stamp[x] >= gg.stamp[y]   \* newest
         IN  /\ o.thr = ""                                           \* a clause exception never surfaces at the call
             /\ (o.acc = 1) <=> (want # 0)
             /\ o.acc = 1 =>
                  /\ o.hd = want /\ post.exp[want].n = s.exp[want].n + 1 /\ o.noks = 1
                  /\ o.cl[1] = <<3, want, 0>>                        \* side effects run at call time
                  /\ \A j \in 2..Len(o.cl) : o.cl[j][2] = want
                  /\ (~Eager(k) => Len(o.cl) = 1 /\ post.inst[i].st = 0)          \* lazy: nothing evaluated before the first resumption
                  /\ (Eager(k) => Len(o.cl) \in {1, 2} /\ post.inst[i].st \in {1, 2, 3})
             /\ o.acc = 0 => (Len(o.reps) = 1 /\ o.reps[1].sev = 0 /\ post = s)
             /\ Others(post, i) = Others(s, i)                        \* other instances are untouched
    [] op.e = "resume" ->
         LET i == a[1]  x == s.inst[i]  e == s.exp[x.slot] IN
         /\ o.acc = 1 /\ o.thr = "" /\ o.reps = <<>>
         /\ Len(o.cl) <= 1
         /\ post.exp = s.exp                                           \* counting happened at the call only
         /\ Others(post, i) = Others(s, i)                             \* instances of one expectation are independent
    [] OTHER -> TRUE

GhostUpdate(gg, s, op, r) ==
  LET a == op.a IN
  CASE op.e = "cexpect" /\ r.st.exp[a[1]].alive -> [gg EXCEPT !.made = @ + 1, !.stamp[a[1]] = gg.made + 1]
    [] op.e \in {"ccall", "resume"} /\ r.obs.acc = 1 /\ r.obs.skip = 0 ->
         LET i == a[1]  x == r.st.inst[i] IN
         [gg EXCEPT !.seen[i] = IF op.e = "ccall" THEN (IF x.st = 1 THEN <<x.cur>> ELSE <<>>)
                                ELSE IF x.st = 1 THEN Append(@, x.cur) ELSE @]
    [] op.e = "idestroy" -> [gg EXCEPT !.seen[a[1]] = <<>>]
    [] OTHER -> gg

InitMC == st = InitSt /\ g = G0
Next == \E op \in {o \in Ops(st, g) : Valid(o)} :
          LET r == Step(st, op) IN
          /\ Assert(r.obs.skip = 0, <<"precondition", op>>)
          /\ Assert(TransOk(st, g, op, r), <<"C20 transition property violated", op, r.obs>>)
          /\ st' = r.st /\ g' = GhostUpdate(g, st, op, r)
Spec == InitMC /\ [][Next]_vars

\* the values an instance has produced are the CO_YIELD values of its expectation, in declaration order;
\* it completes only after all of them (or at the clause that throws)
Inv_Order ==
  \A i \in Insts : st.inst[i].alive =>
     LET x == st.inst[i]  e == st.exp[x.slot]  sn == g.seen[i] IN
     /\ Len(sn) <= e.ny /\ \A j \in 1..Len(sn) : sn[j] = e.ys[j]
     /\ Len(sn) = x.pc
     /\ (x.st = 2 => Len(sn) = e.ny /\ e.retk = 1 /\ e.ythrow = 0)
     /\ (x.st = 3 => \/ (e.ythrow # 0 /\ Len(sn) = e.ythrow - 1 /\ x.ex = "yt" \o ToString(x.slot) \o "." \o ToString(e.ythrow))
                     \/ (e.ythrow = 0 /\ Len(sn) = e.ny /\ e.retk \in {2, 3}))
     /\ (x.st = 0 => sn = <<>>)
Bounded == \A s \in Slots : st.exp[s].n <= 3
Inv_Bounds == \A s \in Slots : st.exp[s].alive => st.exp[s].n <= st.exp[s].hi
=============================================================================
