------------------------------ MODULE Matchers ------------------------------
(***************************************************************************)
(* The mathematical meaning of trompeloeil's scalar matchers, combinators  *)
(* (C10) and range matchers (C11) as a recursive predicate over abstract   *)
(* terms  [k |-> kind, v |-> operand, c |-> <<children>>]  and abstract     *)
(* subjects [n |-> null flag, v |-> value, f |-> <<fields>>, found |-> 0/1]*)
(* (strings are represented by their rank in the ordered test alphabet;    *)
(* for re() `found` is the verdict of an independent std::regex_search).   *)
(***************************************************************************)
EXTENDS Integers, Sequences, FiniteSets, TLC

RECURSIVE Acc(_, _)
Acc(t, x) ==
  CASE t.k = "any"     -> TRUE
    [] t.k = "val"     -> x.v = t.v
    [] t.k = "eq"      -> x.v = t.v
    [] t.k = "ne"      -> x.v # t.v
    [] t.k = "lt"      -> x.v < t.v
    [] t.k = "le"      -> x.v <= t.v
    [] t.k = "gt"      -> x.v > t.v
    [] t.k = "ge"      -> x.v >= t.v
    [] t.k = "not"     -> ~Acc(t.c[1], x)
    [] t.k = "deref"   -> x.n = 0 /\ Acc(t.c[1], x)            \* non-null and the pointee is accepted
    [] t.k = "any_of"  -> \E i \in 1..Len(t.c) : Acc(t.c[i], x)
    [] t.k = "all_of"  -> \A i \in 1..Len(t.c) : Acc(t.c[i], x)
    [] t.k = "none_of" -> ~\E i \in 1..Len(t.c) : Acc(t.c[i], x)
    [] t.k = "member"  -> Acc(t.c[1], [x EXCEPT !.v = x.f[t.v]])
    [] t.k = "re"      -> x.n = 0 /\ x.found = 1
    [] t.k = "isnull"  -> x.n = 1                               \* eq(nullptr) on a null-comparable argument
    [] OTHER           -> Assert(FALSE, <<"unknown matcher kind", t.k>>)

(* ---- range matchers: subject is a sequence r of integers ---- *)
Elem(v) == [n |-> 0, v |-> v, f |-> <<0, 0>>, found |-> 0]
EAcc(t, v) == Acc(t, Elem(v))

\* the verdicts reachable by the documented greedy one-pass assignment: range members are visited in
\* order, each takes away ONE of the remaining element matchers that accept it (if any).
\* `strict`: a member nobody accepts ends the pass (range_is_permutation); otherwise it is skipped (range_includes)
RECURSIVE Greedy(_, _, _, _)
Greedy(r, i, rem, strict) ==        \* rem: set of indices of element matchers not used up yet; returns set of verdicts
  LET es == rem[1]  c == rem[2] IN
  IF i > Len(r) THEN {es = {}}
  ELSE LET fit == {j \in es : EAcc(c[j], r[i])}
       IN  IF fit = {} THEN (IF strict THEN {FALSE} ELSE Greedy(r, i + 1, rem, strict))
           ELSE UNION {Greedy(r, i + 1, <<es \ {j}, c>>, strict) : j \in fit}

RECURSIVE RAcc(_, _)
RAcc(t, r) ==      \* set of admissible verdicts (a singleton unless element matchers overlap)
  LET c == t.c  n == Len(c) IN
  CASE t.k = "range_is"          -> {Len(r) = n /\ \A i \in 1..n : EAcc(c[i], r[i])}
    [] t.k = "range_starts_with" -> {Len(r) >= n /\ \A i \in 1..n : EAcc(c[i], r[i])}
    [] t.k = "range_ends_with"   -> {Len(r) >= n /\ \A i \in 1..n : EAcc(c[i], r[Len(r) - n + i])}
    [] t.k = "range_includes"    -> Greedy(r, 1, <<1..n, c>>, FALSE)
    [] t.k = "range_is_permutation" -> Greedy(r, 1, <<1..n, c>>, TRUE)
    [] t.k = "range_all_of"      -> {\A i \in 1..Len(r) : EAcc(c[1], r[i])}
    [] t.k = "range_any_of"      -> {\E i \in 1..Len(r) : EAcc(c[1], r[i])}
    [] t.k = "range_none_of"     -> {~\E i \in 1..Len(r) : EAcc(c[1], r[i])}
    [] t.k = "not"               -> {~b : b \in RAcc(t.c[1], r)}
    [] OTHER                     -> Assert(FALSE, <<"unknown range matcher kind", t.k>>)

\* declarative reading for pairwise non-overlapping element matchers: an injective assignment exists
Injections(A, B) == {f \in [A -> B] : \A a1, a2 \in A : a1 # a2 => f[a1] # f[a2]}
IncludesDecl(c, r) == \E f \in Injections(1..Len(c), 1..Len(r)) : \A j \in 1..Len(c) : EAcc(c[j], r[f[j]])
PermDecl(c, r) == Len(c) = Len(r) /\ IncludesDecl(c, r)
=============================================================================
