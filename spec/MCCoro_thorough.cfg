\* MCCoro.tla
SPECIFICATION Spec
CONSTANTS
  NSlot = 2
  NInst = 2
  MKinds = {1, 2, 3}
  MaxNy = 2
  MaxCreate = 2
  MBn = 3
CONSTRAINT Bounded
INVARIANT Inv_Order
INVARIANT Inv_Bounds
CHECK_DEADLOCK FALSE
