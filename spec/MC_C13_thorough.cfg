\* MCCore.tla
SPECIFICATION Spec
CONSTANTS
  NSlot = 1
  NMock = 1
  NSeq = 1
  NObj = 2
  NMon = 3
  NTr = 1
  AsIs_D1 = FALSE
  AsIs_D4 = FALSE
  MShapes = {5}
  MArgs = {0}
  MTermIds = {1}
  MBoundIds = {1, 2}
  MFns = {1}
  MaxCreate = 6
  MaxN = 3
  UseMove = FALSE
  UseDestroyMock = FALSE
  UseDestroySeq = FALSE
  UseMonitors = TRUE
  UseWith = FALSE
  UseTracers = FALSE
  UseReporters = FALSE
CONSTRAINT Bounded
INVARIANT Inv_All
CHECK_DEADLOCK FALSE
