------------------------------- MODULE Clauses -------------------------------
(***************************************************************************)
(* C19: the expectation builder as a typestate machine, transcribed from   *)
(* the static_asserts of call_modifier / handle_return / handle_throw /    *)
(* times / runtime_times / in_sequence (mock.hpp), handle_co_return /      *)
(* handle_co_throw / handle_co_yield (coro.hpp) and the end-of-statement   *)
(* check in operator+ (mock.hpp).                                          *)
(* State: k   signature kind: void | value | ref | coval | covoid | gen     *)
(*        R   return_type set (RETURN seen on a non-void signature)         *)
(*        CR  co_return_type set      T  a (CO_)THROW seen                  *)
(*        SE  side effect seen        LS call limit set                     *)
(*        H0  compile-time upper limit is 0      SQ IN_SEQUENCE seen        *)
(* Apply(s, c) = [st |-> state after clause c, msg |-> first diagnostic the *)
(* clause must produce ("" = legal)].  EndMsg(s) = diagnostic of the end of *)
(* the statement.                                                           *)
(***************************************************************************)
EXTENDS Integers, Sequences, TLC

Kinds   == {"void", "value", "ref", "coval", "covoid", "gen"}
Heads   == {"REQ", "ALLOW", "FORBID"}
Clauses == {"WITH", "SE", "RET", "THROW", "T2", "T0", "TINV", "TAL", "RT", "SEQ", "CORET", "COTHROW", "COYIELD"}

Co(k) == k \in {"coval", "covoid", "gen"}
HasYield(k) == k = "gen"          \* the driver's task<> promises have no yield_value, its generator has

Start(k, h) == [k |-> k, R |-> FALSE, CR |-> FALSE, T |-> FALSE, SE |-> FALSE,
                LS |-> h # "REQ", H0 |-> h = "FORBID", SQ |-> FALSE]

Msg(conds) ==      \* message of the first failing guard in code order ("" = all guards hold)
  LET ms == SelectSeq(conds, LAMBDA p : p[1]) IN IF ms = <<>> THEN "" ELSE ms[1][2]

TimesMsg(s, lo, hi) ==
  Msg(<< <<s.LS, "Only one TIMES call limit is allowed, but it can express an interval">>,
         <<hi < lo, "In TIMES the first value must not exceed the second">>,
         <<hi = 0 /\ s.T, "THROW and TIMES(0) does not make sense">>,
         <<hi = 0 /\ s.R, "RETURN and TIMES(0) does not make sense">>,
         <<hi = 0 /\ s.SE, "SIDE_EFFECT and TIMES(0) does not make sense">>,
         <<hi = 0 /\ s.SQ, "IN_SEQUENCE and TIMES(0) does not make sense">> >>)

Apply(s, c) ==
  CASE c = "WITH" -> [st |-> s, msg |-> ""]
    [] c = "SE" ->
         [st |-> [s EXCEPT !.SE = TRUE],
          msg |-> Msg(<< <<s.H0, "SIDE_EFFECT for forbidden call does not make sense">> >>)]
    [] c = "RET" ->
         [st |-> [s EXCEPT !.R = (s.k # "void")],
          msg |-> Msg(<< <<s.CR, "RETURN and CO_RETURN cannot be combined">>,
                         <<Co(s.k), "Do not use RETURN from a coroutine, use CO_RETURN">>,
                         <<s.k = "void", "RETURN does not make sense for void-function">>,
                         <<s.R, "Multiple RETURN does not make sense">>,
                         <<s.T /\ ~s.H0, "THROW and RETURN does not make sense">>,
                         <<s.H0, "RETURN for forbidden call does not make sense">> >>)]
    [] c = "THROW" ->
         [st |-> [s EXCEPT !.T = TRUE],
          msg |-> Msg(<< <<Co(s.k), "Do not use THROW from a coroutine, use CO_THROW">>,
                         <<s.T, "Multiple THROW does not make sense">>,
                         <<s.R, "THROW and RETURN does not make sense">>,
                         <<s.H0, "THROW for forbidden call does not make sense">> >>)]
    [] c = "T2"   -> [st |-> [s EXCEPT !.LS = TRUE, !.H0 = FALSE], msg |-> TimesMsg(s, 2, 2)]
    [] c = "T0"   -> [st |-> [s EXCEPT !.LS = TRUE, !.H0 = TRUE],  msg |-> TimesMsg(s, 0, 0)]
    [] c = "TINV" -> [st |-> [s EXCEPT !.LS = TRUE, !.H0 = FALSE], msg |-> TimesMsg(s, 2, 1)]
    [] c = "TAL"  -> [st |-> [s EXCEPT !.LS = TRUE, !.H0 = FALSE], msg |-> TimesMsg(s, 1, 1000)]
    [] c = "RT" ->
         [st |-> [s EXCEPT !.LS = TRUE, !.H0 = FALSE],
          msg |-> Msg(<< <<s.LS, "Only one RT_TIMES call limit is allowed, but it can express an interval">> >>)]
    [] c = "SEQ" ->
         [st |-> [s EXCEPT !.SQ = TRUE],
          msg |-> Msg(<< <<s.SQ, "Multiple IN_SEQUENCE does not make sense. You can list several sequence objects at once">>,
                         <<s.H0, "IN_SEQUENCE for forbidden call does not make sense">> >>)]
    [] c = "CORET" ->
         [st |-> [s EXCEPT !.CR = (s.k # "void")],
          msg |-> Msg(<< <<s.R, "CO_RETURN and RETURN cannot be combined">>,
                         <<s.CR, "Multiple CO_RETURN does not make sense">>,
                         <<~Co(s.k), "CO_RETURN when return type is not a coroutine">>,
                         <<s.T /\ ~s.H0, "CO_THROW and CO_RETURN does not make sense">>,
                         <<s.H0, "CO_RETURN for forbidden call does not make sense">> >>)]
    [] c = "COTHROW" ->
         [st |-> [s EXCEPT !.T = TRUE],
          msg |-> Msg(<< <<~Co(s.k), "Do not use CO_THROW from a normal function, use THROW">>,
                         <<s.T, "Multiple CO_THROW does not make sense">>,
                         <<s.CR, "CO_THROW and CO_RETURN does not make sense">>,
                         <<s.H0, "CO_THROW for forbidden call does not make sense">> >>)]
    [] c = "COYIELD" ->
         [st |-> s,
          msg |-> Msg(<< <<~Co(s.k), "CO_YIELD when return type is not a coroutine">>,
                         <<~HasYield(s.k), "CO_YIELD is incompatible with the promise type">> >>)]

EndMsg(s) ==
  LET valid == (s.k = "void") \/ s.R \/ s.CR \/ s.H0
  IN  IF ~Co(s.k) /\ ~valid /\ ~s.T THEN "RETURN missing for non-void function"
      ELSE IF Co(s.k) /\ ~valid /\ ~s.T THEN "CO_RETURN missing for coroutine"
      ELSE ""

\* verdict of a whole expectation statement: the diagnostics it must produce (<<>> = compiles)
RECURSIVE Fold(_, _, _)
Fold(s, cl, acc) ==
  IF cl = <<>> THEN acc \o (IF EndMsg(s) = "" THEN <<>> ELSE <<EndMsg(s)>>)
  ELSE LET r == Apply(s, Head(cl)) IN Fold(r.st, Tail(cl), acc \o (IF r.msg = "" THEN <<>> ELSE <<r.msg>>))
Verdict(k, h, cl) == Fold(Start(k, h), cl, <<>>)
=============================================================================
