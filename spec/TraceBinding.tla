---------------------------- MODULE TraceBinding ----------------------------
(* judges every executed case of the generated C09 program family with Binding!Expect *)
EXTENDS BindingExpect, Json, IOUtils
TraceLog == ndJsonDeserialize(IOEnv.TRACE)
VerdictFile == IOEnv.VERDICT
VARIABLES l, viol, done
vars == <<l, viol, done>>
V(ev, field, e, g) == [id |-> ev.id, case |-> ToString(<<ev.n, ev.i, ev.mode, ev.kind>>), field |-> field, exp |-> ToString(e), got |-> ToString(g)]
Chk(ok, ev, field, e, g) == IF ok THEN <<>> ELSE <<V(ev, field, e, g)>>
Mis(ev) ==
  LET x == Expect(ev.mode, ev.i)  o == ev.obs  hasp == ev.n > 0 IN
     Chk(ev.reports = 0, ev, "violation-reported", 0, ev.reports)
  \o Chk(o.plain_w = x.plain /\ o.plain_s = x.plain, ev, "plain-clause-sees-copy-from-creation", x.plain, <<o.plain_w, o.plain_s>>)
  \o Chk(o.lr_w = x.lr /\ o.lr_s = x.lr, ev, "LR-clause-sees-live-variable", x.lr, <<o.lr_w, o.lr_s>>)
  \o Chk(ev.once = 1, ev, "side-effects-exactly-once", 1, ev.once)
  \o (IF ~hasp THEN <<>> ELSE
        Chk(o.addr_w = x.addr /\ o.addr_s = x.addr, ev, "_i-denotes-the-caller's-argument", x.addr, <<o.addr_w, o.addr_s>>)
     \o Chk(o.value_w = x.value /\ o.value_s = x.value, ev, "_i-positional-value", x.value, <<o.value_w, o.value_s>>)
     \o Chk(o.stable_s = 1 /\ (ev.mode = "lref" \/ o.stable_r = 1), ev, "same-object-in-every-clause", 1, <<o.stable_s, o.stable_r>>)
     \o Chk(x.copies = -1 \/ o.copies = x.copies, ev, "no-copies-by-the-library", x.copies, o.copies)
     \o Chk(RetAl(ev.mode, ev.i, ev.kind) = -1 \/ o.retal = RetAl(ev.mode, ev.i, ev.kind), ev, "returned-reference-or-moved-on-result-is-the-caller's-object", RetAl(ev.mode, ev.i, ev.kind), o.retal)
     \o Chk(o.wrote = -1 \/ o.wrote = x.wrote, ev, "write-through-_i-seen-by-caller", x.wrote, o.wrote))
TraceInit == l = 1 /\ viol = <<>> /\ done = FALSE
Consume == /\ l <= Len(TraceLog) /\ l' = l + 1 /\ done' = done
           /\ viol' = IF Len(viol) < 100 THEN viol \o Mis(TraceLog[l]) ELSE viol
Finish == /\ l = Len(TraceLog) + 1 /\ ~done /\ done' = TRUE /\ UNCHANGED <<l, viol>>
          /\ ndJsonSerialize(VerdictFile, viol \o <<[id |-> -1, case |-> "", field |-> "END", exp |-> "", got |-> ToString(Len(TraceLog))]>>)
TraceNext == Consume \/ Finish
TraceSpec == TraceInit /\ [][TraceNext]_vars
=============================================================================
