\* MCClauses.tla
SPECIFICATION Spec
CONSTANTS
  MaxLen = 6
VIEW View
INVARIANT Emit
INVARIANT TypeOk
CHECK_DEADLOCK FALSE
