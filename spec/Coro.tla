-------------------------------- MODULE Coro --------------------------------
(***************************************************************************)
(* C20: mocked functions returning coroutine types.                        *)
(* The call is an ordinary mock call (matched, counted, SIDE_EFFECTs run,  *)
(* OK report) that returns a coroutine INSTANCE bound to the handling      *)
(* expectation's clause list; the instance then evaluates CO_YIELD         *)
(* expressions in declaration order, one per resumption, and finally the   *)
(* CO_RETURN / CO_THROW expression; an exception of any clause is stored   *)
(* in the coroutine and surfaces where the result is awaited, never at the *)
(* call.  Eager types run to their first suspension inside the call, lazy  *)
(* types do nothing before the first resumption.                           *)
(* kinds: 1 eager value task, 2 lazy value task, 3 lazy generator,         *)
(*        4 eager void task, 5 lazy void task   (one mock function each)   *)
(* clause log entries <<3,s,0>> side effect, <<5,s,k>> k-th CO_YIELD,      *)
(*        <<6,s,0>> CO_RETURN expression, <<7,s,0>> CO_THROW expression    *)
(***************************************************************************)
EXTENDS Integers, Sequences, FiniteSets, TLC
CONSTANTS NSlot, NInst
Slots == 1..NSlot
Insts == 1..NInst
Kinds == 1..5
Eager(k)  == k \in {1, 4}
Valued(k) == k \in {1, 2}
CanYield(k) == k \in {1, 2, 3}
INF == 99
Range(s) == {s[i] : i \in 1..Len(s)}
RemoveH(s, x) == SelectSeq(s, LAMBDA y : y # x)

DeadExp  == [alive |-> FALSE, kind |-> 0, ny |-> 0, ys |-> <<0, 0, 0>>, ythrow |-> 0, retk |-> 0, retv |-> 0,
             lo |-> 0, hi |-> 0, n |-> 0, rep |-> FALSE]
DeadInst == [alive |-> FALSE, slot |-> 0, kind |-> 0, pc |-> 0, st |-> -1, cur |-> 0, val |-> 0, ex |-> ""]
InitSt == [exp |-> [s \in Slots |-> DeadExp], act |-> [k \in Kinds |-> <<>>], sat |-> [k \in Kinds |-> <<>>],
           inst |-> [i \in Insts |-> DeadInst]]

Obs0 == [skip |-> 0, acc |-> 1, thr |-> "", reps |-> <<>>, noks |-> 0, cl |-> <<>>, hd |-> 0]
Skip(st) == [st |-> st, obs |-> [Obs0 EXCEPT !.skip = 1]]
Status(x) == [st |-> x.st, cur |-> x.cur, val |-> x.val, ex |-> x.ex]
NoStatus == [st |-> -1, cur |-> 0, val |-> 0, ex |-> ""]

\* one step of the coroutine body of instance x, bound to expectation e (slot s): returns [inst, cl]
Advance(x, e, s) ==
  IF x.pc < e.ny
  THEN LET k == x.pc + 1 IN
       IF e.ythrow = k
       THEN [inst |-> [x EXCEPT !.st = 3, !.ex = "yt" \o ToString(s) \o "." \o ToString(k)], cl |-> << <<5, s, k>> >>]
       ELSE [inst |-> [x EXCEPT !.st = 1, !.pc = k, !.cur = e.ys[k]], cl |-> << <<5, s, k>> >>]
  ELSE CASE e.retk = 1 -> [inst |-> [x EXCEPT !.st = 2, !.val = IF Valued(x.kind) THEN e.retv ELSE IF x.kind = 3 THEN 0 ELSE 1],
                            cl |-> IF Valued(x.kind) THEN << <<6, s, 0>> >> ELSE <<>>]
         [] e.retk = 2 -> [inst |-> [x EXCEPT !.st = 3, !.ex = "th" \o ToString(s)], cl |-> << <<7, s, 0>> >>]
         [] OTHER      -> [inst |-> [x EXCEPT !.st = 3, !.ex = "rt" \o ToString(s)], cl |-> << <<6, s, 0>> >>]

Step(st, ev) ==
  LET a == ev.a IN
  CASE ev.e = "cexpect" ->
         LET s == a[1] IN
         IF ~(s \in Slots) \/ st.exp[s].alive \/ ~(a[2] \in Kinds) THEN Skip(st)
         ELSE IF a[10] > a[11] THEN [st |-> st, obs |-> [Obs0 EXCEPT !.thr = "In RT_TIMES the first value must not exceed the second"]]
         ELSE [st |-> [st EXCEPT !.exp[s] = [alive |-> TRUE, kind |-> a[2], ny |-> a[3], retk |-> a[4], ys |-> <<a[5], a[6], a[7]>>,
                                              ythrow |-> a[8], retv |-> a[9], lo |-> a[10], hi |-> a[11], n |-> 0, rep |-> FALSE],
                                 !.act[a[2]] = <<s>> \o @],
               obs |-> Obs0]
    [] ev.e = "ccall" ->
         LET i == a[1]  k == a[2] IN
         IF ~(i \in Insts) \/ st.inst[i].alive \/ ~(k \in Kinds) THEN Skip(st)
         ELSE IF st.act[k] = <<>>
         THEN LET satm == st.sat[k] IN     \* arity 0: every expectation on the function matches
              [st |-> IF satm # <<>> THEN st ELSE st,
               obs |-> [Obs0 EXCEPT !.acc = 0, !.reps = << [sev |-> 0, kind |-> "nomatch"] >>]]
         ELSE LET c  == st.act[k][1]                 \* newest live unsaturated expectation
                  e  == st.exp[c]
                  n1 == e.n + 1
                  satur == n1 = e.hi
                  x0 == [alive |-> TRUE, slot |-> c, kind |-> k, pc |-> 0, st |-> 0, cur |-> 0, val |-> 0, ex |-> ""]
                  adv == IF Eager(k) THEN Advance(x0, e, c) ELSE [inst |-> x0, cl |-> <<>>]
              IN  [st |-> [st EXCEPT !.exp[c].n = n1,
                                     !.act[k] = IF satur THEN RemoveH(@, c) ELSE @,
                                     !.sat[k] = IF satur THEN Append(@, c) ELSE @,
                                     !.inst[i] = adv.inst],
                   obs |-> [Obs0 EXCEPT !.noks = 1, !.hd = c, !.cl = << <<3, c, 0>> >> \o adv.cl]]
    [] ev.e = "resume" ->
         LET i == a[1] IN
         IF ~(i \in Insts) \/ ~st.inst[i].alive \/ st.inst[i].st \in {2, 3} THEN Skip(st)
         ELSE LET x == st.inst[i]
                  adv == Advance(x, st.exp[x.slot], x.slot)
              IN  [st |-> [st EXCEPT !.inst[i] = adv.inst], obs |-> [Obs0 EXCEPT !.cl = adv.cl]]
    [] ev.e = "idestroy" ->
         IF ~(a[1] \in Insts) \/ ~st.inst[a[1]].alive THEN Skip(st)
         ELSE [st |-> [st EXCEPT !.inst[a[1]] = DeadInst], obs |-> Obs0]
    [] ev.e = "crelease" ->
         LET s == a[1] IN
         IF ~(s \in Slots) \/ ~st.exp[s].alive THEN Skip(st)
         ELSE LET e == st.exp[s] IN
              [st |-> [st EXCEPT !.exp[s] = DeadExp, !.act[e.kind] = RemoveH(@, s), !.sat[e.kind] = RemoveH(@, s)],
               obs |-> [Obs0 EXCEPT !.reps = IF e.n < e.lo /\ ~e.rep THEN << [sev |-> 1, kind |-> "unfulfilled"] >> ELSE <<>>]]
    [] OTHER -> Skip(st)

B2I(b) == IF b THEN 1 ELSE 0
Min(S) == CHOOSE x \in S : \A y \in S : x <= y
RECURSIVE Enum(_)
Enum(T) == IF T = {} THEN <<>> ELSE <<Min(T)>> \o Enum(T \ {Min(T)})
Flags(st) ==
  LET ss == Enum({s \in Slots : st.exp[s].alive})
  IN  [i \in 1..Len(ss) |-> <<ss[i], B2I(st.exp[ss[i]].n >= st.exp[ss[i]].lo), B2I(st.exp[ss[i]].n = st.exp[ss[i]].hi)>>]
=============================================================================
