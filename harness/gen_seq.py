#!/usr/bin/env python3
"""Generate the expectation / monitor sites of the sequential driver:
one C++ source line per (slot, shape), spread over NTU translation units,
plus sites.json (file:line -> slot, shape, expected expectation text)."""
import json, os, sys
sys.path.insert(0, os.path.dirname(os.path.abspath(__file__)))
from shapes import SHAPES, NSLOT, NMON, SCOPED_IDS

NTU = 16

def clause_code(tok, S, fn='f'):
    lr = tok.startswith('L') and tok not in ()
    t = tok[1:] if lr else tok
    if t[0] == 'W' and t[1:].isdigit():
        # a function without parameters has conditions too: they are evaluated on the constant 0
        return '.%sWITH(WC(%d,%s,%s))' % ('LR_' if lr else '', S, t[1:], '0' if fn == 'z' else '_1')
    if tok.startswith('MS'):
        return '.SIDE_EFFECT(SE(%d,%s); _1 = 77)' % (S, tok[2:])
    if t[0] == 'S' and t[1:].isdigit():
        return '.%sSIDE_EFFECT(SE(%d,%s))' % ('LR_' if lr else '', S, t[1:])
    if t == 'R':
        if fn == 'q':       # std::string returned by value from an rvalue expression
            return '.%sRETURN(std::string("r") + std::to_string(RV(%d)))' % ('LR_' if lr else '', S)
        return '.%sRETURN(RV(%d))' % ('LR_' if lr else '', S)
    if tok == 'TH':
        return '.THROW(TH(%d))' % S
    if tok == 'LTH':
        return '.LR_THROW(TH(%d))' % S
    if tok == 'Q3':
        return '.IN_SEQUENCE(*seqs[c.q[0]], *seqs[c.q[1]], *seqs[6 - c.q[0] - c.q[1]])'
    if tok == 'TI':
        return '.THROW(TI(%d))' % S
    if tok == 'Q1':
        return '.IN_SEQUENCE(*seqs[c.q[0]])'
    if tok == 'Q2':
        return '.IN_SEQUENCE(*seqs[c.q[0]], *seqs[c.q[1]])'
    if tok == 'RT':
        return '.RT_TIMES(ub(c.lo), ub(c.hi))'
    if tok == 'RT1':
        return '.RT_TIMES(ub(c.hi))'
    if tok == 'RTAL':
        return '.RT_TIMES(AT_LEAST(ub(c.lo)))'
    if tok == 'RTAM':
        return '.RT_TIMES(AT_MOST(ub(c.hi)))'
    if tok.startswith('AL'):
        return '.TIMES(AT_LEAST(%s))' % tok[2:]
    if tok.startswith('AM'):
        return '.TIMES(AT_MOST(%s))' % tok[2:]
    if tok.startswith('T'):
        body = tok[1:]
        return '.TIMES(%s)' % body.replace('_', ',')
    raise ValueError(tok)

def objx(sh, S):
    """the mock object expression of a site: the movable mock type, or the non-movable one (mock id 3)"""
    if sh.get('nm') == 'w':
        return '*wmock'
    return '*nmock' if sh.get('nm') else '*mocks[cfg[%d].mock]' % S

def guard(sh):
    """a site is only usable with a mock id of its own mock type (a script naming the wrong one is skipped, not executed)"""
    if sh.get('nm') == 'w':
        return 'if (c.mock != WM_ID || !wmock) return false;'
    g = 'if (c.mock != NM_ID) return false;' if sh.get('nm') else 'if (c.mock < 0 || c.mock >= NMOCK) return false;'
    if 'Q3' in sh['cl']:      # all three sequence objects must exist
        g += ' { int q3 = 6 - c.q[0] - c.q[1]; if (q3 < 1 || q3 > NSEQ || q3 == c.q[0] || q3 == c.q[1] || !seqs[q3]) return false; }'
    return g

def call_text(sh, S):
    fn, pm = sh['fn'], sh['pm']
    if pm == 'wild':
        arg = '_'
    elif pm == 'lit1':
        arg = '1'
    elif pm == 'any':
        arg = 'ANY(int)'
    elif fn == 's':
        arg = 'PMS(%d)' % S
    elif fn == 'g':
        arg = 'PM(%d,0), PM(%d,1)' % (S, S)
    elif fn == 'h':
        arg = 'PM(%d,0), PM(%d,1), PM(%d,2)' % (S, S, S)
    elif fn == 'z':
        arg = ''
    else:
        arg = 'PM(%d,0)' % S
    name = {'f': 'f', 's': 'f', 'g': 'g', 'v': 'v', 'z': 'z', 'h': 'h', 'q': 'q'}[fn]
    return '%s(%s)' % (name, arg)

def main(outdir):
    os.makedirs(outdir, exist_ok=True)
    pairs = [(S, sh) for sh in SHAPES for S in range(1, NSLOT + 1) if sh['id'] not in SCOPED_IDS]
    spairs = [(S, sh) for sh in SHAPES for S in range(1, NSLOT + 1) if sh['id'] in SCOPED_IDS]
    tus = [[] for _ in range(NTU)]
    for i, p in enumerate(pairs):
        tus[i % NTU].append(p)
    sites = {}
    for n, tu in enumerate(tus):
        fname = 'sites_%d.cpp' % n
        lines = ['#include "rt.hpp"',
                 'using namespace drv; using trompeloeil::_;',
                 'namespace drv { bool make_expectation_%d(int slot, int shape) { SlotCfg& c = cfg[slot]; switch (slot * 1000 + shape) {' % n]
        for (S, sh) in tu:
            ct = call_text(sh, S)
            mods = ''.join(clause_code(t, S, sh['fn']) for t in sh['cl'])
            if sh['macro'].endswith('_V'):
                macro = {'REQ_V': 'NAMED_REQUIRE_CALL_V', 'ALLOW_V': 'NAMED_ALLOW_CALL_V', 'FORBID_V': 'NAMED_FORBID_CALL_V'}[sh['macro']]
                code = 'case %d: %s exps[%d] = %s(%s, %s%s); return true;' % (
                    S * 1000 + sh['id'], guard(sh), S, macro, objx(sh, S), ct, (', ' + mods) if mods else '')
            else:
                macro = {'REQ': 'NAMED_REQUIRE_CALL', 'ALLOW': 'NAMED_ALLOW_CALL', 'FORBID': 'NAMED_FORBID_CALL'}[sh['macro']]
                code = 'case %d: %s exps[%d] = %s(%s, %s)%s; return true;' % (
                    S * 1000 + sh['id'], guard(sh), S, macro, objx(sh, S), ct, mods)
            lines.append(code)
            sites['%s:%d' % (fname, len(lines))] = dict(kind='exp', slot=S, shape=sh['id'], name=objx(sh, S) + '.' + ct)
        lines.append('default: return false; } } }')
        with open(os.path.join(outdir, fname), 'w') as f:
            f.write('\n'.join(lines) + '\n')
    # scoped forms: the expectation is a local variable; `created` logs the creation, `body` runs the ops of the scope
    fname = 'sites_scoped.cpp'
    lines = ['#include "rt.hpp"', 'using namespace drv; using trompeloeil::_;',
             'namespace drv { bool make_scoped(int slot, int shape, std::function<void()> const& created, std::function<void()> const& body) { SlotCfg& c = cfg[slot]; (void)c; switch (slot * 1000 + shape) {']
    for (S, sh) in spairs:
        ct = call_text(sh, S)
        mods = ''.join(clause_code(t, S, sh['fn']) for t in sh['cl'])
        m = sh['macro']
        if m.endswith('_V'):
            macro = {'SREQ_V': 'REQUIRE_CALL_V', 'SALLOW_V': 'ALLOW_CALL_V', 'SFORBID_V': 'FORBID_CALL_V'}[m]
            stmt = '%s(%s, %s%s);' % (macro, objx(sh, S), ct, (', ' + mods) if mods else '')
        else:
            macro = {'SREQ': 'REQUIRE_CALL', 'SALLOW': 'ALLOW_CALL', 'SFORBID': 'FORBID_CALL'}[m]
            stmt = '%s(%s, %s)%s;' % (macro, objx(sh, S), ct, mods)
        lines.append('case %d: %s { %s created(); body(); } return true;' % (S * 1000 + sh['id'], guard(sh), stmt))
        sites['%s:%d' % (fname, len(lines))] = dict(kind='exp', slot=S, shape=sh['id'], name=objx(sh, S) + '.' + ct)
    lines.append('default: return false; } }')
    lines.append('bool make_scoped_monitor(int k, int o, int nq, int q1, int q2, std::function<void()> const& created, std::function<void()> const& body) { (void)q1; (void)q2; switch (k * 10 + nq) {')
    for k in range(1, NMON + 1):
        for nq, tail in ((0, ''), (1, '.IN_SEQUENCE(*seqs[q1])'), (2, '.IN_SEQUENCE(*seqs[q1], *seqs[q2])')):
            lines.append('case %d: { REQUIRE_DESTRUCTION(*objs[o])%s; created(); body(); } return true;' % (k * 10 + nq, tail))
            sites['%s:%d' % (fname, len(lines))] = dict(kind='mon', k=k, nq=nq, name='REQUIRE_DESTRUCTION(*objs[o])',
                                                          call='destructor for *objs[o]', obj='*objs[o]')
    lines.append('default: return false; } }')
    lines.append('}')
    with open(os.path.join(outdir, fname), 'w') as f:
        f.write('\n'.join(lines) + '\n')
    # monitors + dispatcher
    fname = 'sites_mon.cpp'
    lines = ['#include "rt.hpp"', 'using namespace drv;', 'namespace drv {']
    for n in range(NTU):
        lines.append('bool make_expectation_%d(int, int);' % n)
    lines.append('bool make_expectation(int slot, int shape) { return ' +
                 ' || '.join('make_expectation_%d(slot, shape)' % n for n in range(NTU)) + '; }')
    # requirements on the watched mock (object id 4)
    lines.append('bool make_wmonitor(int k, int nq, int q1, int q2) { (void)q1; (void)q2; switch (k * 10 + nq) {')
    for k in range(1, NMON + 1):
        for nq, tail in ((0, ''), (1, '.IN_SEQUENCE(*seqs[q1])'), (2, '.IN_SEQUENCE(*seqs[q1], *seqs[q2])')):
            lines.append('case %d: mons[%d] = NAMED_REQUIRE_DESTRUCTION(*wmock)%s; return true;' % (k * 10 + nq, k, tail))
            sites['%s:%d' % (fname, len(lines))] = dict(kind='mon', k=k, nq=nq, name='NAMED_REQUIRE_DESTRUCTION(*wmock)',
                                                          call='destructor for *wmock', obj='*wmock')
    lines.append('default: return false; } }')
    lines.append('bool make_monitor(int k, int o, int nq, int q1, int q2) { (void)q1; (void)q2; switch (k * 10 + nq) {')
    for k in range(1, NMON + 1):
        for nq, tail in ((0, ''), (1, '.IN_SEQUENCE(*seqs[q1])'), (2, '.IN_SEQUENCE(*seqs[q1], *seqs[q2])')):
            lines.append('case %d: mons[%d] = NAMED_REQUIRE_DESTRUCTION(*objs[o])%s; return true;' % (k * 10 + nq, k, tail))
            sites['%s:%d' % (fname, len(lines))] = dict(kind='mon', k=k, nq=nq, name='NAMED_REQUIRE_DESTRUCTION(*objs[o])',
                                                          call='destructor for *objs[o]', obj='*objs[o]')
    lines.append('default: return false; } }')
    lines.append('}')
    with open(os.path.join(outdir, fname), 'w') as f:
        f.write('\n'.join(lines) + '\n')
    with open(os.path.join(outdir, 'sites.json'), 'w') as f:
        json.dump(sites, f, indent=0)
    print('generated %d expectation sites in %d TUs' % (len(pairs), NTU))

if __name__ == '__main__':
    main(sys.argv[1])
