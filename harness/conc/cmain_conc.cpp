// Concurrent conformance driver (C12).  Built with -fsanitize=thread, the custom recursive mutex seam
// (TROMPELOEIL_CUSTOM_RECURSIVE_MUTEX) and the verification hooks (ROLLBEAR_TROMPELOEIL_VERIF).
// A segment = prelude ops (main thread), per-thread programs run concurrently, post ops (main thread).
// Observers: (1) per-op results + lock tickets for the linearization replay by TLC,
//            (2) lock discipline: every hook event on shared state must see the lock held by the emitting thread,
//            (3) ThreadSanitizer on the free-running threads.
#include "rt.hpp"
#include <fcntl.h>
#include <sys/wait.h>
#include <unistd.h>
#include <atomic>
#include <fstream>
#include <mutex>
#include <random>
#include <sstream>
#include <thread>

namespace drv {
SlotCfg cfg[NSLOT + 1];
std::unique_ptr<Mock> mocks[NMOCK];
std::unique_ptr<MockN> nmock;
std::unique_ptr<WMock> wmock;
std::unique_ptr<trompeloeil::sequence> seqs[NSEQ + 1];
std::unique_ptr<trompeloeil::expectation> exps[NSLOT + 1];
std::unique_ptr<DW> objs[NOBJ + 1];
std::unique_ptr<trompeloeil::expectation> mons[NMON + 1];

struct Fatal {};
struct Rep { int sev; std::string file; unsigned long line; std::string msg; long t; };
struct Cl { int k, s, i, r; };
struct Hook { std::string name; long ticket; int held; long shared; };
struct TrRec { int t; std::string file; unsigned long line; std::string msg; };

// per-thread recording state
struct TL {
  std::vector<Rep> reps;
  std::vector<std::string> oks;
  std::vector<Cl> cls;
  std::vector<long> tickets;
  std::vector<Hook> hooks;
  std::vector<TrRec> trs;
  std::vector<std::string> out;
  int tid = 0;
  unsigned rng = 1;
};
static thread_local TL tl;

void logc(int kind, int slot, int idx, int res) { tl.cls.push_back({kind, slot, idx, res}); }
bool accepts(Term t, int x)
{
  using trompeloeil::param_matches;
  switch (t.op) {
  case 0: return true;
  case 1: return param_matches(trompeloeil::eq(t.v), std::ref(x));
  case 2: return param_matches(trompeloeil::ne(t.v), std::ref(x));
  case 3: return param_matches(trompeloeil::lt(t.v), std::ref(x));
  case 4: return param_matches(trompeloeil::le(t.v), std::ref(x));
  case 5: return param_matches(trompeloeil::gt(t.v), std::ref(x));
  case 6: return param_matches(trompeloeil::ge(t.v), std::ref(x));
  }
  return false;
}
void nested_call(int) {}

// ---- the library's global lock, instrumented: owner, depth, ticket per outermost acquisition, random yields
static bool g_yield = false;
struct VMutex : trompeloeil::custom_recursive_mutex {
  std::recursive_mutex m;
  std::atomic<int> owner{0};
  int depth = 0;
  long ticket = 0;
  void maybe_yield() { if (g_yield) { tl.rng = tl.rng * 1103515245u + 12345u; if (((tl.rng >> 16) & 3) == 0) std::this_thread::yield(); } }
  void lock() override { maybe_yield(); m.lock(); if (depth++ == 0) { owner.store(tl.tid + 1); ++ticket; tl.tickets.push_back(ticket); } }
  void unlock() override { if (--depth == 0) owner.store(0); m.unlock(); maybe_yield(); }
  bool held_by_me() const { return owner.load() == tl.tid + 1; }
  long current_ticket() const { return ticket; }
};
static std::atomic<VMutex*> g_mutex{nullptr};
}  // namespace drv

namespace trompeloeil {
std::unique_ptr<custom_recursive_mutex> create_custom_recursive_mutex()
{
  auto p = new drv::VMutex;
  drv::g_mutex.store(p);
  return std::unique_ptr<custom_recursive_mutex>(p);
}
}

namespace drv {
static void on_event(char const* name, void const*, long shared)
{
  VMutex* mx = g_mutex.load();
  int held = mx && mx->held_by_me() ? 1 : 0;
  long t = held ? mx->current_ticket() : 0;
  tl.hooks.push_back({name, t, held, shared});
}

static std::string jesc(std::string const& s)
{
  std::string o;
  for (unsigned char c : s) {
    switch (c) {
    case '"': o += "\\\""; break;
    case '\\': o += "\\\\"; break;
    case '\n': o += "\\n"; break;
    case '\t': o += "\\t"; break;
    default: if (c < 0x20) o += ' '; else o += char(c);
    }
  }
  return o;
}
static std::string base(std::string const& f) { auto p = f.rfind('/'); return p == std::string::npos ? f : f.substr(p + 1); }

static int do_call(int m, int f, int a, int b)
{
  if (m == NM_ID) return nmock->f(a);
  if (m == WM_ID) return static_cast<IFace&>(*wmock).f(a);
  switch (f) {
  case 1: return mocks[m]->f(a);
  case 2: return mocks[m]->f(std::string("s") + std::to_string(a));
  case 3: { Mock const& cm = *mocks[m]; return cm.g(a, b); }
  case 4: mocks[m]->v(a); return 0;
  case 5: return mocks[m]->z();
  case 6: return mocks[m]->h(a, b, b);
  case 7: { std::string r = mocks[m]->q(a); return r.size() > 1 && r[0] == 'r' ? std::atoi(r.c_str() + 1) : -77; }
  }
  return -1;
}

static void emit(char const* op, std::vector<int> const& a, int acc, int ret, std::string const& thr, int skip, int q1, int q2)
{
  std::ostringstream o;
  o << "{\"e\":\"" << op << "\",\"thr_id\":" << tl.tid << ",\"a\":[";
  for (size_t i = 0; i < a.size(); ++i) o << (i ? "," : "") << a[i];
  o << "],\"skip\":" << skip << ",\"acc\":" << acc << ",\"ret\":" << ret << ",\"thr\":\"" << jesc(thr) << "\",\"q\":[" << q1 << "," << q2 << "],\"reps\":[";
  for (size_t i = 0; i < tl.reps.size(); ++i)
    o << (i ? "," : "") << "{\"r\":1,\"sev\":" << tl.reps[i].sev << ",\"file\":\"" << jesc(base(tl.reps[i].file)) << "\",\"line\":" << tl.reps[i].line
      << ",\"t\":" << tl.reps[i].t << ",\"msg\":\"" << jesc(tl.reps[i].msg) << "\"}";
  o << "],\"oks\":[";
  for (size_t i = 0; i < tl.oks.size(); ++i) o << (i ? "," : "") << "{\"r\":1,\"msg\":\"" << jesc(tl.oks[i]) << "\"}";
  o << "],\"trs\":[";
  for (size_t i = 0; i < tl.trs.size(); ++i)
    o << (i ? "," : "") << "{\"t\":" << tl.trs[i].t << ",\"file\":\"" << jesc(base(tl.trs[i].file)) << "\",\"line\":" << tl.trs[i].line
      << ",\"msg\":\"" << jesc(tl.trs[i].msg) << "\"}";
  o << "],\"probe\":[],\"cl\":[";
  for (size_t i = 0; i < tl.cls.size(); ++i) o << (i ? "," : "") << "[" << tl.cls[i].k << "," << tl.cls[i].s << "," << tl.cls[i].i << "," << tl.cls[i].r << "]";
  o << "],\"tickets\":[";
  for (size_t i = 0; i < tl.tickets.size(); ++i) o << (i ? "," : "") << tl.tickets[i];
  o << "],\"hooks\":[";
  for (size_t i = 0; i < tl.hooks.size(); ++i)
    o << (i ? "," : "") << "{\"n\":\"" << tl.hooks[i].name << "\",\"t\":" << tl.hooks[i].ticket << ",\"held\":" << tl.hooks[i].held << ",\"sh\":" << tl.hooks[i].shared << "}";
  o << "]}";
  tl.out.push_back(o.str());
  tl.reps.clear(); tl.oks.clear(); tl.cls.clear(); tl.tickets.clear(); tl.hooks.clear(); tl.trs.clear();
}

static bool okm(int m) { return m >= 0 && m < NMOCK; }
static bool oksl(int s) { return s >= 1 && s <= NSLOT; }
static bool okq(int q) { return q >= 1 && q <= NSEQ; }
static bool oko(int o) { return o >= 1 && o <= NOBJ; }
static bool okk(int k) { return k >= 1 && k <= NMON; }

// a tracer is installed by the main thread before the worker threads exist (and removed after they are joined): every
// accepted call, on whichever thread, must deliver its record to it
struct Tr : trompeloeil::tracer {
  int id;
  explicit Tr(int i) : id(i) {}
  void trace(char const* file, unsigned long line, std::string const& call) override { tl.trs.push_back({id, file ? file : "", line, call}); }
};
static std::unique_ptr<Tr> g_tracer;

static void run_op(std::string const& line)
{
  std::istringstream is(line);
  std::string op; is >> op;
  std::vector<int> a; int x; while (is >> x) a.push_back(x);
  auto A = [&](size_t i) { return i < a.size() ? a[i] : 0; };
  int acc = 1, ret = 0, q1 = -1, q2 = -1; std::string thr; bool skip = false;
  try {
    if (op == "mock") { if (A(0) == NM_ID && !nmock) nmock = std::make_unique<MockN>(); else if (okm(A(0)) && !mocks[A(0)]) mocks[A(0)] = std::make_unique<Mock>(); else skip = true; }
    else if (op == "tracer") { if (!g_tracer) g_tracer = std::make_unique<Tr>(A(0)); else skip = true; }
    else if (op == "dtracer") { if (g_tracer) g_tracer.reset(); else skip = true; }
    else if (op == "seq") { if (okq(A(0)) && !seqs[A(0)]) seqs[A(0)] = std::make_unique<trompeloeil::sequence>(); else skip = true; }
    else if (op == "obj") { if (oko(A(0)) && !objs[A(0)]) objs[A(0)] = std::make_unique<DW>(); else skip = true; }
    else if (op == "expect") {
      int s = A(0);
      if (!oksl(s) || exps[s] || !((A(2) == NM_ID && nmock) || (okm(A(2)) && mocks[A(2)]))) skip = true;
      else {
        SlotCfg& c = cfg[s]; c = SlotCfg{}; c.mock = A(2);
        c.p[0] = {A(3), A(4)}; c.p[1] = {A(5), A(6)};
        c.w[0] = {A(7), A(8)}; c.w[1] = {A(9), A(10)}; c.w[2] = {A(11), A(12)};
        c.se[0] = A(13); c.se[1] = A(14); c.se[2] = A(15);
        c.retv = A(16); c.lo = A(17); c.hi = A(18); c.q[0] = A(19); c.q[1] = A(20);
        if (!make_expectation(s, A(1))) skip = true;
      }
    }
    else if (op == "call") { if ((A(0) == NM_ID && nmock && A(1) == 1) || (okm(A(0)) && mocks[A(0)])) ret = do_call(A(0), A(1), A(2), A(3)); else skip = true; }
    else if (op == "release") { if (oksl(A(0)) && exps[A(0)]) exps[A(0)].reset(); else skip = true; }
    else if (op == "query") { if (oksl(A(0)) && exps[A(0)]) { q1 = exps[A(0)]->is_satisfied(); q2 = exps[A(0)]->is_saturated(); } else skip = true; }
    else if (op == "mquery") { if (okk(A(0)) && mons[A(0)]) { q1 = mons[A(0)]->is_satisfied(); q2 = mons[A(0)]->is_saturated(); } else skip = true; }
    else if (op == "mqueryx") { if (okk(A(0)) && mons[A(0)]) { (void)mons[A(0)]->is_satisfied(); (void)mons[A(0)]->is_saturated(); } else skip = true; }
    else if (op == "iscompleted") { if (okq(A(0)) && seqs[A(0)]) q1 = seqs[A(0)]->is_completed(); else skip = true; }
    else if (op == "dmock") { if (A(0) == NM_ID && nmock) nmock.reset(); else if (okm(A(0)) && mocks[A(0)]) mocks[A(0)].reset(); else skip = true; }
    else if (op == "watch") {
      int k = A(0), o = A(1), nq = A(2);
      if (!okk(k) || mons[k] || !oko(o) || !objs[o]) skip = true;
      else if (!make_monitor(k, o, nq, A(3), A(4))) skip = true;
    }
    else if (op == "unwatch") { if (okk(A(0)) && mons[A(0)]) mons[A(0)].reset(); else skip = true; }
    else if (op == "dobj") { if (oko(A(0)) && objs[A(0)]) objs[A(0)].reset(); else skip = true; }
    else if (op == "dseq") { if (okq(A(0)) && seqs[A(0)]) seqs[A(0)].reset(); else skip = true; }
    else skip = true;
  }
  catch (Fatal const&) { acc = 0; }
  catch (std::logic_error const& e) { thr = std::string("logic:") + e.what(); }
  catch (std::exception const& e) { thr = std::string("std:") + e.what(); }
  catch (int i) { thr = "int:" + std::to_string(i); }
  catch (...) { thr = "unk"; }
  emit(op.c_str(), a, acc, ret, thr, skip ? 1 : 0, q1, q2);
}

static FILE* out = nullptr;
static void on_terminate() { static char const m[] = "{\"e\":\"terminate\"}\n"; if (out) { fwrite(m, 1, sizeof m - 1, out); fflush(out); } _exit(42); }

struct Seg { std::string id; std::vector<std::string> pre, post; std::vector<std::vector<std::string>> thr; };

static void flush_tl(char const* phase)
{
  for (auto const& l : tl.out) { std::string s = l; s.insert(1, std::string("\"ph\":\"") + phase + "\","); std::fputs(s.c_str(), out); std::fputc('\n', out); }
  tl.out.clear();
  std::fflush(out);
}

static int run_segment(Seg const& sg, unsigned seed)
{
  std::set_terminate(on_terminate);
  trompeloeil::verif::event_sink() = on_event;
  trompeloeil::set_reporter(
    [](trompeloeil::severity s, char const* file, unsigned long line, std::string const& msg) {
      VMutex* mx = g_mutex.load();
      long t = mx && mx->held_by_me() ? mx->current_ticket() : 0;      // the critical section the report was sent from
      tl.reps.push_back({s == trompeloeil::severity::fatal ? 0 : 1, file ? file : "", line, msg, t});
      if (s == trompeloeil::severity::fatal) throw Fatal{};
    },
    [](char const* m) { tl.oks.push_back(m ? m : ""); });
  tl.tid = 0;
  { auto l = trompeloeil::get_lock(); }   // create the instrumented mutex before any thread exists
  tl.tickets.clear();
  for (auto const& l : sg.pre) run_op(l);
  flush_tl("pre");
  g_yield = true;
  std::vector<std::vector<std::string>> outs(sg.thr.size());
  std::vector<std::thread> ths;
  std::atomic<int> go{0};
  for (size_t t = 0; t < sg.thr.size(); ++t)
    ths.emplace_back([&, t] {
      tl.tid = int(t) + 1; tl.rng = seed * 7919u + unsigned(t) * 104729u + 1u;
      while (!go.load()) std::this_thread::yield();
      for (auto const& l : sg.thr[t]) run_op(l);
      outs[t] = std::move(tl.out);
    });
  go.store(1);
  for (auto& th : ths) th.join();
  g_yield = false;
  for (auto& o : outs) { for (auto const& l : o) { std::string s = l; s.insert(1, "\"ph\":\"thr\","); std::fputs(s.c_str(), out); std::fputc('\n', out); } }
  std::fflush(out);
  tl.tid = 0;
  for (auto const& l : sg.post) run_op(l);
  flush_tl("post");
  // quiescent final state through the public API
  {
    std::ostringstream o;
    o << "{\"e\":\"final\",\"fl\":[";
    bool first = true;
    for (int s = 1; s <= NSLOT; ++s) if (exps[s]) { o << (first ? "" : ",") << "[" << s << "," << int(exps[s]->is_satisfied()) << "," << int(exps[s]->is_saturated()) << "]"; first = false; }
    o << "],\"mon\":[";
    first = true;
    for (int k = 1; k <= NMON; ++k) if (mons[k]) { o << (first ? "" : ",") << "[" << k << "," << int(mons[k]->is_satisfied()) << "," << int(mons[k]->is_saturated()) << "]"; first = false; }
    o << "],\"comp\":[";
    first = true;
    for (int q = 1; q <= NSEQ; ++q) if (seqs[q]) { o << (first ? "" : ",") << "[" << q << "," << int(seqs[q]->is_completed()) << "]"; first = false; }
    o << "]}\n";
    std::fputs(o.str().c_str(), out);
  }
  tl.reps.clear(); tl.oks.clear(); tl.cls.clear(); tl.tickets.clear(); tl.hooks.clear(); tl.trs.clear();
  // quiet tear-down
  trompeloeil::set_reporter([](trompeloeil::severity, char const*, unsigned long, std::string const&) {});
  for (int s = 1; s <= NSLOT; ++s) exps[s].reset();
  for (int k = 1; k <= NMON; ++k) mons[k].reset();
  for (int o = 1; o <= NOBJ; ++o) objs[o].reset();
  for (int m = 0; m < NMOCK; ++m) mocks[m].reset();
  nmock.reset();
  for (int q = 1; q <= NSEQ; ++q) seqs[q].reset();
  g_tracer.reset();
  std::fputs("{\"e\":\"fin\"}\n", out);
  std::fflush(out);
  return 0;
}
}  // namespace drv

int main(int argc, char** argv)
{
  if (argc < 3) { std::fprintf(stderr, "usage: %s script out.ndjson [seed]\n", argv[0]); return 2; }
  unsigned seed = argc > 3 ? unsigned(std::atoi(argv[3])) : 1;
  std::ifstream in(argv[1]);
  std::vector<drv::Seg> segs; std::string line;
  while (std::getline(in, line)) {
    if (line.empty() || line[0] == '#') continue;
    if (line.compare(0, 4, "seg ") == 0) { segs.push_back({}); segs.back().id = line.substr(4); continue; }
    if (segs.empty()) continue;
    if (line.compare(0, 4, "pre ") == 0) segs.back().pre.push_back(line.substr(4));
    else if (line.compare(0, 5, "post ") == 0) segs.back().post.push_back(line.substr(5));
    else if (line.compare(0, 4, "thr ") == 0) {
      std::istringstream is(line.substr(4)); size_t t; is >> t; std::string rest; std::getline(is, rest);
      if (segs.back().thr.size() <= t) segs.back().thr.resize(t + 1);
      segs.back().thr[t].push_back(rest.substr(rest.find_first_not_of(' ')));
    }
  }
  FILE* o = std::fopen(argv[2], "w"); if (!o) return 2;
  std::string errpath = std::string(argv[2]) + ".err";
  unsigned n = 0;
  for (auto const& sg : segs) {
    ++n;
    std::fprintf(o, "{\"e\":\"seg\",\"id\":\"%s\"}\n", sg.id.c_str()); std::fflush(o);
    pid_t pid = fork();
    if (pid == 0) {
      int fd = open(errpath.c_str(), O_WRONLY | O_CREAT | O_TRUNC, 0644); if (fd >= 0) { dup2(fd, 2); close(fd); }
      drv::out = o; alarm(30);
      int rc = drv::run_segment(sg, seed * 1000003u + n); std::fflush(o); std::exit(rc);
    }
    int st = 0; waitpid(pid, &st, 0);
    int code = WIFEXITED(st) ? WEXITSTATUS(st) : 0, sig = WIFSIGNALED(st) ? WTERMSIG(st) : 0;
    std::string san;
    { std::ifstream e(errpath); std::string l; int k = 0;
      while (std::getline(e, l) && k < 400) { ++k;
        if (l.find("WARNING: ThreadSanitizer") != std::string::npos || l.find("SUMMARY:") != std::string::npos || l.find("    #0 ") != std::string::npos ||
            l.find("    #1 ") != std::string::npos || l.find("    #2 ") != std::string::npos || l.find("ERROR:") != std::string::npos) { if (san.size() < 1500) { san += l; san += " | "; } } } }
    std::fseek(o, 0, SEEK_END);
    std::fprintf(o, "{\"e\":\"endseg\",\"id\":\"%s\",\"exit\":%d,\"sig\":%d,\"san\":\"%s\"}\n", sg.id.c_str(), code, sig, drv::jesc(san).c_str()); std::fflush(o);
  }
  std::fclose(o); unlink(errpath.c_str());
  return 0;
}
