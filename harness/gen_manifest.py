#!/usr/bin/env python3
"""Writes /verif/MANIFEST.json from the table below (kept in one place so that it is always valid)."""
import json, os, subprocess, sys
VERIF = os.path.dirname(os.path.dirname(os.path.abspath(__file__)))

CORE_NOTE = ('trusted: TLC + CommunityModules Json, g++ 12 with ASan/UBSan/LSan, the trace normaliser (text -> fields), '
             'the shape table shared by driver generator and spec; assumed: small integer domains, bounded history length, '
             'caller obligations of the property as generator preconditions')

def core(pid, text, tech, ref):
    return dict(property_id=pid, quick_cmd='./check %s quick' % pid, thorough_cmd='./check %s thorough' % pid,
                evidence_file='evidence/%s.json' % pid, replay_cmd_template='./check --replay {path}', engine='tla-core',
                level_claimed=dict(category='model_checking', text=text, design_ref=ref), level_note=CORE_NOTE, technique=tech)

TECH_CORE = ('TLA+ operational spec (Core.tla Step function) model-checked by TLC against declarative history-based '
             'transition properties (MCCore.tla), bound to the code by trace validation: seeded op scripts run against the real '
             'headers under ASan/UBSan, every recorded observation compared with Step by TLC (TraceCore.tla)')

CHECKS = [
    core('C01', 'TLC: accepted <=> the declaratively designated candidate exists and is not forbidding, else one fatal report and no state change, '
                'on every transition of the bounded model; implementation: every call of the generated histories (creation, expiry, mock move/destroy, calls) validated against Step',
         TECH_CORE, '6/C01'),
    core('C02', 'TLC: handler = newest eligible match with fewest passed-over pending steps (history-based definition) and only its count changes; '
                'implementation traces with overlapping expectations, sequences, several objects/overloads validated field by field', TECH_CORE, '6/C02'),
    core('C03', 'TLC: n <= hi, saturated list = saturated expectations, inverted RT_TIMES leaves nothing behind; implementation: all (L,H) bounds 0..3/inf, '
                'n up to H+2 calls, flags after every op, saturated listing in the no-match report', TECH_CORE, '6/C03'),
    core('C04', 'TLC: end-of-life report <=> count < lower bound and not named before, at most once (ghost counter); implementation: tear-down orders of '
                'release / mock destruction / move / no-match listing validated', TECH_CORE, '6/C04'),
    core('C05', 'TLC: eligibility defined from registration history (not list positions) equals the operational pending-list rule; forward-only follows from handler = designated; '
                'implementation: sequences of expectations and monitors with all bounds validated, incl. witnesses of repaired defects D1, D2, D3, D15', TECH_CORE, '6/C05'),
    core('C06', 'TLC invariant: pending list = declaratively pending entries in registration order, is_completed = all pending satisfied, tear-down listing exact; '
                'implementation: is_completed queried after every op, tear-down reports compared in order', TECH_CORE, '6/C06'),
    core('C07', 'TLC: forbidden report iff designated candidate is forbidding; two-run erasure property (state without forbidding expectations gives the same outcome); '
                'implementation: FORBID_CALL / TIMES(0) / RT_TIMES(0) stackings validated', TECH_CORE, '6/C07'),
    core('C08', 'clause log (WITH / SIDE_EFFECT / RETURN / THROW evaluation order and counts) of every call compared with the specified sequence; throwing side effects still count', TECH_CORE, '6/C08'),
    core('C13', 'TLC: unexpected-destruction report iff no live requirement (set semantics), object knows exactly its live monitors; implementation: all interleavings of watch / release / destroy / copy / move / assign sampled, ASan on', TECH_CORE, '6/C13'),
    core('C14', 'TLC invariant: linkage well-formed after any destroy/move order, move two-run equivalence; implementation: random tear-down orders of every entity kind under ASan+UBSan+LSan with survivor observations validated', TECH_CORE, '6/C14'),
    core('C15', 'every report produced in the histories of the other core checks validated for severity, location, text identity, printed arguments, listing order and per-candidate detail', TECH_CORE, '6/C15'),
    core('C16', 'TLC: one OK report naming the handler iff accepted; implementation: OK reports and set_reporter return values (probed) validated under reporter replacement', TECH_CORE, '6/C16'),
    core('C17', 'trace records (tracer identity, location, name, arguments, result / exception text) validated for nestings of custom and stream tracers', TECH_CORE, '6/C17'),
]

def other(pid, text, tech, ref, note, engine):
    return dict(property_id=pid, quick_cmd='./check %s quick' % pid, thorough_cmd='./check %s thorough' % pid,
                evidence_file='evidence/%s.json' % pid, replay_cmd_template='cat {path}', engine=engine,
                level_claimed=dict(category='model_checking', text=text, design_ref=ref), level_note=note, technique=tech)

SUITE_TECH = ('; plus trace validation of the repository\'s own self_test (all test cases) and thread_terror built with the guarded hooks against the '
              'identity-level spec Generic.tla (list discipline, selection rule, counting / saturation, end-of-life verdicts, report kinds and severities)')
for c in CHECKS:
    if c['property_id'] in ('C01', 'C02', 'C03', 'C04', 'C05', 'C07', 'C14', 'C15'):
        c['technique'] += SUITE_TECH

EXTRA_TECH = {
    'C01': '; the C10 scalar matcher catalogue through real expectations (Matchers!Acc)',
    'C02': '; the C10 scalar matcher catalogue through real expectations (Matchers!Acc)',
    'C07': '; the C10 scalar matcher catalogue through real expectations (Matchers!Acc)',
    'C08': '; the reference-returning members of the C09 family (Binding!Expect: the result is the very object)',
    'C15': '; the C18 value catalogue as reports print it (Printing!Render)',
    'C17': '; the C18 value catalogue as trace records print it (Printing!Render); concurrent programs with a tracer installed before the threads start (linearization replay)',
}
for c in CHECKS:
    c['technique'] += EXTRA_TECH.get(c['property_id'], '')

CHECKS += [
    other('C10', 'the mathematical predicate of every scalar matcher / combinator is a recursive TLA+ operator (Matchers.tla); TLC checks its algebraic laws over a bounded term universe '
                 'and judges the verdict of the REAL matcher for every catalogue term (all leaves typed and duck-typed, !, *, any_of/all_of/none_of with 0..3 operands, MEMBER_IS, strings, re) on every subject value, each through a real ALLOW_CALL',
          'TLA+ predicate Acc(term, x) as executable oracle (TLC laws + TLC trace validation of real matcher verdicts over an enumerated term catalogue)', '6/C10',
          'trusted: TLC, g++, the catalogue generator (C++ expression <-> abstract term); strings by rank; re() found-flag from an independent std::regex_search', 'tla-matchers'),
    other('C11', 'range matchers specified by position / quantifier / set of verdicts of the documented greedy one-pass assignment (Matchers.tla RAcc); TLC proves on the bounded domain that for non-overlapping element matchers '
                 'this equals "an injective assignment exists"; every catalogue term is evaluated by the real matcher on all ranges over {0,1,2} up to length 4 in vector (via a real call), list, deque, std::array, C array; single-element forms must compile',
          'TLA+ oracle RAcc(term, range) (TLC laws + TLC trace validation of real range matcher verdicts, exhaustive ranges) + compile probes', '6/C11',
          'trusted: TLC, g++, the catalogue generator; overlapping element matchers: any greedy verdict accepted (docs: may or may not match)', 'tla-matchers'),
    other('C18', 'Render(value) and the stream-state law are a TLA+ function (Printing.tla); TLC compares output and state after trompeloeil::print for a typed value catalogue (ints, strings, null pointers / smart pointers / null-comparable, nested collections, pairs, tuples, maps, opaque structs of 1..40 bytes, printer<T>, operator<<) under every prior stream state, plus the same values embedded in a real report and trace record; ASan+UBSan on',
          'TLA+ rendering function as executable oracle, TLC trace validation of real print() output and stream state', '6/C18',
          'trusted: TLC, g++ sanitizers, the value catalogue (C++ value <-> abstract value); unspecified padding cases are not compared', 'tla-printing'),
]

CHECKS += [
    other('C19', 'the expectation builder is a typestate machine in TLA+ (Clauses.tla, transcribed from the static_asserts); TLC explores every reachable legal typestate and emits one statement per transition with the diagnostics it must produce; '
                 'every statement is compiled (C++20 all kinds incl. three coroutine kinds, C++14 non-coroutine) and must show exactly that verdict (legal: no error; illegal: the documented message); plus the 68 shipped negative programs against their own pass rules, a fixed catalogue (parameter index beyond arity, MAKE_MOCKn arity, value from matcher, moving a non-movable mock, deathwatched without virtual destructor) and the LONG_MACROS macro-namespace check',
          'TLA+ typestate machine explored by TLC; its state graph is the test plan (one compile test per transition), verdicts compared with g++ diagnostics', '6/C19',
          'trusted: TLC, g++ 12 diagnostics attribution through "required from here"; clause arguments are well-typed; clang 14 (C++14, non-coroutine statements) is a second compiler in the thorough tier', 'tla-clauses'),
]

CHECKS += [
    other('C20', 'Coro.tla specifies the call (ordinary matching, counting, side effects at call time) and the coroutine instance (CO_YIELD expressions in declaration order, one per resumption, then CO_RETURN / CO_THROW; clause exceptions stored and surfacing at the await point; eager types run to the first suspension inside the call, lazy ones do nothing); '
                 'TLC checks order / independence / nothing-at-call properties on a bounded model (MCCoro); a C++20 driver with own eager/lazy task, generator and void-task types runs seeded scripts (calls, interleaved resumptions of several instances of one expectation, destruction) under ASan (stack-use-after-return on) and every clause evaluation, yielded value, completion and flag is validated by TLC; legal clause combinations are compile-probed',
          'TLA+ spec (Coro.tla Step) + TLC model checking (MCCoro) + TLC trace validation of the real library driven through mocked coroutines', '6/C20',
          'trusted: TLC, g++ 12 coroutines + ASan; arity-0 coroutine functions only (open finding D12); expectation outlives its coroutines (proviso)', 'tla-coro'),
]

CHECKS += [
    other('C09', 'Binding.tla: a store model (caller object, callee parameter, named local, creation-time copy) explored by TLC for the capture / write-through / by-value laws, and BindingExpect!Expect, the observation every member of the generated program family must show; '
                 'the family (arity 0..15 x position x value, &, const&, &&, T*, move-only unique_ptr, copy-counting by value / const& x MAKE_MOCKn, MAKE_CONST_MOCKn, overloaded, IMPLEMENT_MOCKn) is compiled and run under ASan+UBSan; address identity in WITH / SIDE_EFFECT / RETURN, positional value, write-through, returned-reference aliasing, copy count and plain-vs-LR_ capture of a local changed between creation and call are judged by TLC',
          'TLA+ store model checked by TLC + TLA+ expected-observation function judging an executed, generated C++ program family', '6/C09',
          'trusted: TLC, g++ sanitizers, the family generator; the arity/type axis is generated C++ (the spec contributes aliasing and capture semantics)', 'tla-binding'),
]

CHECKS += [
    other('C12', 'MCConc.tla: TLC explores every interleaving of the critical sections of small thread programs and checks lock discipline and linearizability against all sequential executions (and must reject the pinned-code variants AsIs_D7 and AsIs_D17); '
                 'implementation: seeded concurrent programs (2-8 threads: up to 3 owner threads plus callers; calls, creation with/without IN_SEQUENCE and TIMES, release, is_satisfied / is_saturated / is_completed, watch / destroy watched object / release its monitor from another thread, destroy a mock while another thread releases or queries its expectations) run on the real library built with ThreadSanitizer, an instrumented lock (custom recursive mutex seam: owner, tickets, random yields) and the verification hooks; '
                 'three observers of the same runs: TSan reports, the lock-held flag of every hook event on shared state, and a linearization replay - every critical section in lock-ticket order through Core!Step with every operation result compared by TLC, and for every recorded mock destruction the question whether one atomic step explains the window it spans',
          'TLA+ concurrency model (TLC, exhaustive interleavings of critical sections) + TLC trace validation of real concurrent executions linearized by lock tickets + TSan + lock-discipline hooks', '6/C12',
          'trusted: TLC, TSan, the instrumented mutex; schedules on the implementation are sampled (exhaustive only in the model); caller obligations of the property are generator preconditions', 'tla-core'),
]

NOT_YET = {
    'C09': 'check under construction in this round (generated program family + Binding.tla); not claimed until it runs clean',
    'C10': 'check under construction in this round (Matchers.tla + matcher driver); not claimed until it runs clean',
    'C11': 'check under construction in this round (range matcher spec + driver); not claimed until it runs clean',
    'C12': 'check under construction in this round (Conc.tla + TSan driver); not claimed until it runs clean',
    'C18': 'check under construction in this round (Printing.tla + print driver); not claimed until it runs clean',
    'C19': 'check under construction in this round (Clauses.tla typestate machine + compile harness); not claimed until it runs clean',
    'C20': 'check under construction in this round (Coro.tla + C++20 driver); not claimed until it runs clean',
}

def main():
    fix_commits = []
    man = dict(
        version=1,
        setup_cmd='python3 harness/setup.py',
        hooks=dict(guard='ROLLBEAR_TROMPELOEIL_VERIF',
                   enable='-DROLLBEAR_TROMPELOEIL_VERIF on two builds only: the C12 concurrent driver (together with -DTROMPELOEIL_CUSTOM_RECURSIVE_MUTEX; harness/lib.py build_conc) and the repository\'s own test programs test/compiling_tests*.cpp + test/thread_terror.cpp linked with harness/suite/sink.cpp (harness/lib.py build_suite; trace validated against spec/Generic.tla); every other driver uses the public API without hooks',
                   baseline_off_cmd='cmake -G Ninja -S /repo -B /repo/_build -DCMAKE_BUILD_TYPE=RelWithDebInfo -DCMAKE_CXX_FLAGS=-Wno-error -DTROMPELOEIL_BUILD_TESTS=yes && cmake --build /repo/_build && ctest --test-dir /repo/_build -j8 --timeout 900 --output-junit /repo/_build/junit.xml',
                   source_commits=['dd58f2e893301b4b4e053f610c645850221b171e', '451f2fa2aa2672beacf4d08dcf2e1e95d92c1aa6'], add_only=True),
        engines=[dict(name='tla-binding', path='spec/Binding.tla', serves_properties=['C09'], kind_free_text='TLA+ store model + expected observations for a generated program family'),
                 dict(name='tla-coro', path='spec/Coro.tla', serves_properties=['C20'], kind_free_text='TLA+ spec + TLC model checking + trace validation of mocked coroutines (C++20 driver)'),
                 dict(name='tla-clauses', path='spec/Clauses.tla', serves_properties=['C19'], kind_free_text='TLA+ typestate machine, TLC-generated transition cover compiled by g++'),
                 dict(name='tla-matchers', path='spec/Matchers.tla', serves_properties=['C10', 'C11'], kind_free_text='TLA+ oracle + TLC trace validation of real matcher verdicts'),
                 dict(name='tla-printing', path='spec/Printing.tla', serves_properties=['C18'], kind_free_text='TLA+ oracle + TLC trace validation of real print() output'),
                 dict(name='tla-generic', path='spec/Generic.tla', serves_properties=['C01', 'C02', 'C03', 'C04', 'C05', 'C07', 'C14', 'C15'],
                      kind_free_text='TLA+ spec of the expectation machine at object-identity level + TLC trace validation of the repository\'s own self_test / thread_terror built with the guarded hooks'),
                 dict(name='tla-core', path='spec/Core.tla', serves_properties=[c['property_id'] for c in CHECKS if c['engine'] == 'tla-core'],
                      kind_free_text='TLA+ spec + TLC model checking + trace validation of the real library (harness/seq driver)')],
        checks=CHECKS,
        notes='See DESIGN.md. known_findings.json lists repaired defects (fix: commits in /repo) and open findings.',
        not_applicable=[dict(property_id=k, reason=v) for k, v in sorted(NOT_YET.items()) if k not in {c['property_id'] for c in CHECKS}],
    )
    with open(os.path.join(VERIF, 'MANIFEST.json'), 'w') as f:
        json.dump(man, f, indent=1)
    try:
        import jsonschema
        jsonschema.validate(man, json.load(open('/root/.vp/MANIFEST.schema.json')))
        print('MANIFEST.json valid,', len(CHECKS), 'checks')
    except ImportError:
        print('MANIFEST.json written (jsonschema not available)')

if __name__ == '__main__':
    main()
