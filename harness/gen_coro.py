#!/usr/bin/env python3
"""C20 driver generator: expectation sites for mocked coroutine functions (one source line per
(slot, kind, number of CO_YIELD clauses, kind of completion)), C++20."""
import json, os, sys

NSLOT = 3
NINST = 4
KINDS = {1: ('ce', 'vt::ytask<int, false>', True), 2: ('cl', 'vt::ytask<int, true>', True), 3: ('cg', 'vt::gen<int>', True),
         4: ('cv', 'vt::task<void, false>', False), 5: ('clv', 'vt::task<void, true>', False)}
NTU = 16

def sites():
    """(kind, ny, retk, ord): ord = position of the completion clause among the CO_YIELD clauses
    (0 = last, as usually written; 1 = first; 2 = after the first CO_YIELD) - declaration order of the
    CO_YIELDs is what counts, wherever CO_RETURN / CO_THROW is written"""
    out = []
    for kind, (fn, ty, can_yield) in KINDS.items():
        for ny in (range(0, 4) if can_yield else [0]):
            for retk in ((1, 2, 3) if kind in (1, 2) else (1, 2)):      # a throwing CO_RETURN expression needs a non-void CO_RETURN
                out.append((kind, ny, retk, 0))
                if ny >= 1 and retk in (1, 2):
                    out.append((kind, ny, retk, 1))
                    if ny >= 2:
                        out.append((kind, ny, retk, 2))
    return out

def site_code(S, kind, ny, retk, ord=0):
    fn, ty, can_yield = KINDS[kind]
    valued = kind in (1, 2)
    yl = ['.CO_YIELD(YV(%d,%d))' % (S, k) for k in range(1, ny + 1)]
    if retk == 1:
        fin = '.CO_RETURN(CRV(%d))' % S if valued else '.CO_RETURN()'
    elif retk == 2:
        fin = '.CO_THROW(CTH(%d))' % S
    else:
        fin = '.CO_RETURN(CRT(%d))' % S
    pos = {0: len(yl), 1: 0, 2: 1}[ord]
    clauses = ''.join(yl[:pos]) + fin + ''.join(yl[pos:])
    return 'exps[%d] = NAMED_REQUIRE_CALL(*mk, %s()).SIDE_EFFECT(CSE(%d)).RT_TIMES(ub(cfg[%d].lo), ub(cfg[%d].hi))%s;' % (S, fn, S, S, S, clauses)

def main(outdir, skip=()):
    os.makedirs(outdir, exist_ok=True)
    all_sites = [(S, k, ny, r, o) for (k, ny, r, o) in sites() for S in range(1, NSLOT + 1) if (k, r) not in skip]
    tus = [[] for _ in range(NTU)]
    for i, s in enumerate(all_sites):
        tus[i % NTU].append(s)
    table = {}
    for n, tu in enumerate(tus):
        fname = 'csites_%d.cpp' % n
        lines = ['#include "crt.hpp"', 'using namespace cdrv;',
                 'namespace cdrv { bool make_cexp_%d(int slot, int kind, int ny, int retk, int ord) { switch ((((slot * 10 + kind) * 10 + ny) * 10 + retk) * 10 + ord) {' % n]
        for (S, k, ny, r, o) in tu:
            lines.append('case %d: %s return true;' % ((((S * 10 + k) * 10 + ny) * 10 + r) * 10 + o, site_code(S, k, ny, r, o)))
            table['%s:%d' % (fname, len(lines))] = dict(slot=S, kind=k, ny=ny, retk=r, ord=o)
        lines.append('default: return false; } } }')
        open(os.path.join(outdir, fname), 'w').write('\n'.join(lines) + '\n')
    disp = ['#include "crt.hpp"', 'namespace cdrv {']
    for n in range(NTU):
        disp.append('bool make_cexp_%d(int, int, int, int, int);' % n)
    disp.append('bool make_cexp(int s, int k, int ny, int r, int o) { return ' + ' || '.join('make_cexp_%d(s, k, ny, r, o)' % n for n in range(NTU)) + '; }')
    disp.append('}')
    open(os.path.join(outdir, 'cdisp.cpp'), 'w').write('\n'.join(disp) + '\n')
    json.dump(table, open(os.path.join(outdir, 'csites.json'), 'w'))
    print('generated %d coroutine expectation sites' % len(all_sites))

def probes():
    """documented legal forms that must compile: (kind, retk, description, statement)"""
    out = []
    for kind, (fn, ty, can_yield) in KINDS.items():
        for retk in ((1, 2, 3) if kind in (1, 2) else (1, 2)):
            for ny in ((0, 1) if can_yield else (0,)):
                desc = '%s %s with %d CO_YIELD and %s' % (ty, fn, ny, {1: 'CO_RETURN', 2: 'CO_THROW', 3: 'throwing CO_RETURN expression'}[retk])
                out.append((kind, retk, desc, site_code(1, kind, ny, retk)))
    return out

if __name__ == '__main__':
    main(sys.argv[1])
