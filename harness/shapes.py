"""Shape table of the sequential driver: which clause macros an expectation
site uses, in which order.  One C++ source line is generated per (slot, shape).
The same table tells the trace normaliser / TLA+ spec the *abstract structure*
of an expectation created from a shape (number of WITH / SIDE_EFFECT clauses,
kind of return, number of sequences, where the bounds come from).

Clause tokens
  W1..W3  WITH(WC(slot,k,_1))        LW1..LW3  LR_WITH(...)
  S1..S3  SIDE_EFFECT(SE(slot,k))    LS1..LS3  LR_SIDE_EFFECT(...)
  R / LR  RETURN(RV(slot)) / LR_RETURN(RV(slot))
  TH / TI THROW(std::runtime_error) / THROW(int)
  Q1 / Q2 IN_SEQUENCE(one) / IN_SEQUENCE(two sequence objects)   Q3 IN_SEQUENCE(all three sequence objects; the third is 6 - q1 - q2)
  LTH     LR_THROW(std::runtime_error)
  RT      RT_TIMES(lo, hi) with run-time bounds from the op script
  RT1     RT_TIMES(hi)  (exactly hi)   RTAL  RT_TIMES(AT_LEAST(lo))   RTAM  RT_TIMES(AT_MOST(hi))
  T<l>_<h>, T<n>, AL<n>, AM<n>  compile-time TIMES forms
Function codes: f = int f(int), s = int f(std::string const&) (overload),
  g = int g(int,int) const, v = void v(int), z = int z() (no parameter), h = int h(int, int, int) (the third
  parameter is always matched by a run-time term that accepts everything), q = std::string q(int) (a movable class type
  returned by value from an rvalue RETURN expression: "r" + the slot's return value)
Parameter matcher forms (pm): 'rt' run-time term matcher (typed custom matcher
  wrapping the real trompeloeil comparison matchers), 'wild' = the `_`
  wildcard, 'lit1' = the literal value 1, 'any' = ANY(int)
"""

INF = 99          # JSON / TLA+ representation of "no upper bound"

FN = {'f': 1, 's': 2, 'g': 3, 'v': 4, 'z': 5, 'h': 6, 'q': 7}
NPAR = {'f': 1, 's': 1, 'g': 2, 'v': 1, 'z': 0, 'h': 3, 'q': 1}

def S(id, fn, macro, cl, pm='rt', nm=False):
    return dict(id=id, fn=fn, macro=macro, cl=cl.split() if cl else [], pm=pm, nm=nm)

SHAPES = [
    # ---- int f(int)
    S(1,  'f', 'REQ',    'R'),
    S(2,  'f', 'REQ',    'RT R'),
    S(3,  'f', 'REQ',    'W1 RT R'),
    S(4,  'f', 'REQ',    'W1 W2 S1 S2 RT R'),
    S(5,  'f', 'REQ',    'Q1 RT R'),
    S(6,  'f', 'REQ',    'RT Q1 R'),
    S(7,  'f', 'REQ',    'Q2 RT R'),
    S(8,  'f', 'REQ',    'W1 Q1 S1 RT R'),
    S(9,  'f', 'ALLOW',  'R'),
    S(10, 'f', 'ALLOW',  'W1 R'),
    S(11, 'f', 'ALLOW',  'Q1 R'),
    S(12, 'f', 'FORBID', ''),
    S(13, 'f', 'FORBID', 'W1'),
    S(14, 'f', 'REQ',    'T0'),
    S(15, 'f', 'REQ',    'RT TH'),
    S(16, 'f', 'REQ',    'S1 RT TI'),
    S(17, 'f', 'REQ',    'T2 R'),
    S(18, 'f', 'REQ',    'R T1_3'),
    S(19, 'f', 'REQ',    'AL1 R'),
    S(20, 'f', 'REQ',    'AM2 R'),
    S(21, 'f', 'REQ',    'LW1 LW2 LW3 LS1 LS2 LS3 RT LR'),
    S(22, 'v', 'REQ',    'RT', pm='wild'),
    S(23, 'f', 'REQ',    'RT R', pm='lit1'),
    S(24, 'f', 'ALLOW',  'R', pm='any'),
    S(25, 'f', 'REQ',    'S1 S2 S3 RT Q2 R'),
    S(26, 'f', 'REQ',    'Q1 AL1 R'),
    S(27, 'f', 'REQ',    'T2 Q1 R'),
    # ---- int f(std::string const&)
    S(30, 's', 'REQ',    'RT R'),
    S(31, 's', 'REQ',    'W1 S1 RT R'),
    S(32, 's', 'ALLOW',  'R'),
    S(33, 's', 'FORBID', ''),
    S(34, 's', 'REQ',    'Q1 RT R'),
    # ---- int g(int,int) const
    S(40, 'g', 'REQ',    'RT R'),
    S(41, 'g', 'REQ',    'W1 W2 S1 RT R'),
    S(42, 'g', 'ALLOW',  'R'),
    S(43, 'g', 'FORBID', ''),
    S(44, 'g', 'REQ',    'Q1 RT R'),
    # ---- void v(int)
    S(50, 'v', 'REQ',    'RT'),
    S(51, 'v', 'REQ',    'W1 S1 S2 RT'),
    S(52, 'v', 'ALLOW',  ''),
    S(53, 'v', 'FORBID', ''),
    S(54, 'v', 'REQ',    'Q1 RT'),
    S(55, 'v', 'REQ',    'RT TH'),
    S(56, 'v', 'REQ',    'Q2 S1 RT'),
    # ---- the variadic (C++11 style) macro forms NAMED_xxx_CALL_V(obj, func, modifiers...): own macro bodies
    S(60, 'f', 'REQ_V',    'W1 RT R'),
    S(61, 'f', 'ALLOW_V',  'W1 R'),
    S(62, 'v', 'FORBID_V', 'W1'),
    S(63, 'v', 'FORBID_V', ''),
    S(64, 'v', 'ALLOW_V',  'S1'),
    S(65, 'v', 'ALLOW_V',  ''),
    S(66, 'v', 'REQ_V',    'RT'),
    S(67, 'v', 'REQ_V',    ''),
    S(68, 'f', 'FORBID_V', ''),
    S(69, 'f', 'REQ_V',    'Q1 RT R'),
    # ---- the scoped forms (the expectation is a local variable of a block; its lifetime ends at scope exit)
    S(70, 'f', 'SREQ',     'RT R'),
    S(71, 'f', 'SREQ',     'W1 Q1 S1 RT R'),
    S(72, 'f', 'SALLOW',   'R'),
    S(73, 'f', 'SFORBID',  ''),
    S(74, 'v', 'SREQ',     'RT'),
    S(75, 'v', 'SALLOW',   'S1'),
    S(76, 'v', 'SFORBID',  'W1'),
    S(77, 'f', 'SREQ_V',   'W1 RT R'),
    S(78, 'v', 'SALLOW_V', 'S1'),
    S(79, 'v', 'SFORBID_V', 'W1'),
    S(80, 'v', 'SREQ_V',   ''),
    S(81, 'v', 'SFORBID_V', ''),
    S(82, 'f', 'SFORBID',  '',     pm='any'),     # plain (scoped) forms with a macro inside the call expression
    S(83, 'f', 'SREQ',     'RT R', pm='any'),
    S(84, 'f', 'SALLOW',   'R',    pm='any'),
    # ---- a side effect that assigns to its parameter (MS1): later observers of the call (trace record, RETURN) see what?
    S(90, 'f', 'REQ',    'MS1 RT R'),
    S(91, 'v', 'ALLOW',  'MS1 S2'),
    S(92, 'f', 'REQ',    'W1 MS1 RT TH'),
    # ---- the same function on a NON-movable mock type (expectations<false, Sig>); only usable with mock id 3
    S(100, 'f', 'REQ',    'RT R',        nm=True),
    S(101, 'f', 'ALLOW',  'R',           nm=True),
    S(102, 'f', 'FORBID', '',            nm=True),
    S(103, 'f', 'REQ',    'Q1 RT R',     nm=True),
    S(104, 'f', 'REQ',    'W1 S1 RT R',  nm=True),
    S(105, 'f', 'SREQ',   'RT R',        nm=True),
    # ---- f(int) of a mock that is also a deathwatched object (mock id 4 == watched object id 4)
    S(110, 'f', 'REQ',    'RT R',        nm='w'),
    S(111, 'f', 'ALLOW',  'R',           nm='w'),
    S(112, 'f', 'REQ',    'Q1 RT R',     nm='w'),
    # ---- the other forms of RT_TIMES (single value = exactly n; AT_LEAST / AT_MOST with run-time values)
    S(120, 'f', 'REQ',    'RT1 R'),
    S(121, 'f', 'REQ',    'Q1 RT1 R'),
    S(122, 'f', 'REQ',    'RTAL R'),
    S(123, 'f', 'REQ',    'RTAM R'),
    S(124, 'f', 'REQ',    'RT1 Q1 R'),
    S(125, 'v', 'REQ',    'RTAM Q1', pm='wild'),
    # ---- arity 0 and arity 3
    S(130, 'z', 'REQ',    'RT R'),
    S(131, 'z', 'ALLOW',  'R'),
    S(132, 'z', 'FORBID', ''),
    S(133, 'z', 'REQ',    'Q1 RT R'),
    S(134, 'z', 'REQ',    'S1 RT TH'),
    S(135, 'h', 'REQ',    'RT R'),
    S(136, 'h', 'REQ',    'W1 S1 RT R'),
    S(137, 'h', 'ALLOW',  'R'),
    S(138, 'h', 'FORBID', ''),
    S(139, 'h', 'REQ',    'Q1 RT R'),
    S(140, 'z', 'REQ',    'W1 RT R'),
    S(142, 'q', 'REQ',    'RT R'),
    S(145, 'f', 'REQ',    'Q3 RT R'),
    S(146, 'v', 'REQ',    'RT Q3'),
    S(147, 'f', 'REQ',    'LS1 RT LTH'),
    S(148, 'v', 'REQ',    'RT LTH'),
    S(143, 'q', 'ALLOW',  'R'),
    S(144, 'q', 'REQ',    'S1 RT TH'),
    S(141, 'z', 'ALLOW',  'LW1 W2 R'),
    # ---- a macro inside the call expression (ANY(int)): the expectation's text must stay as written, in every macro family
    S(126, 'f', 'FORBID', '',        pm='any'),
    S(127, 'f', 'REQ',    'RT R',    pm='any'),
]
WATCHED_IDS = {110, 111, 112}
RTFORM_IDS = set(range(120, 126))
ANYFORM_IDS = {126, 127}
ARITY_IDS = set(range(130, 149))
NONMOVABLE_IDS = set(range(100, 106))
SCOPED_IDS = set(range(70, 85)) | {105}

BY_ID = {s['id']: s for s in SHAPES}

def static_bounds(tok):
    """compile-time TIMES token -> (lo, hi) or None"""
    if tok.startswith('AL'):
        return (int(tok[2:]), INF)
    if tok.startswith('AM'):
        return (0, int(tok[2:]))
    if tok.startswith('RT'):
        return None
    if tok.startswith('T') and tok not in ('TH', 'TI'):
        body = tok[1:]
        if '_' in body:
            a, b = body.split('_')
            return (int(a), int(b))
        return (int(body), int(body))
    return None

def derive(sh):
    """abstract structure of a shape"""
    cl = sh['cl']
    nw = sum(1 for c in cl if c.lstrip('L').startswith('W'))
    ns = sum(1 for c in cl if c.lstrip('LM').startswith('S'))
    nq = 3 if 'Q3' in cl else 2 if 'Q2' in cl else (1 if 'Q1' in cl else 0)
    if 'R' in cl or 'LR' in cl:
        retk = 1            # value
    elif 'TH' in cl or 'LTH' in cl:
        retk = 2            # throws std::runtime_error
    elif 'TI' in cl:
        retk = 3            # throws int
    else:
        retk = 0            # void / nothing
    fam = sh['macro'].replace('_V', '').lstrip('S') if sh['macro'].startswith('S') else sh['macro'].replace('_V', '')
    lo, hi = {'REQ': (1, 1), 'ALLOW': (0, INF), 'FORBID': (0, 0)}[fam]
    rt = any(c in ('RT', 'RT1', 'RTAL', 'RTAM') for c in cl)
    rtk = 1 if 'RT' in cl else 2 if 'RT1' in cl else 3 if 'RTAL' in cl else 4 if 'RTAM' in cl else 0
    for c in cl:
        b = static_bounds(c)
        if b:
            lo, hi = b
    # is the bounds clause evaluated before the IN_SEQUENCE clause?  (what
    # bounds the sequence handle copies at registration time)
    bidx = [i for i, c in enumerate(cl) if c in ('RT', 'RT1', 'RTAL', 'RTAM') or static_bounds(c)]
    qidx = [i for i, c in enumerate(cl) if c in ('Q1', 'Q2', 'Q3')]
    bounds_first = bool(bidx and qidx and bidx[0] < qidx[0])
    if fam != 'REQ':
        bounds_first = True
    return dict(fn=FN[sh['fn']], npar=NPAR[sh['fn']], nw=nw, ns=ns, nq=nq,
                retk=retk, lo=lo, hi=hi, rt=rt, rtk=rtk, pm=sh['pm'],
                bounds_first=bounds_first, macro=fam)

DERIVED = {s['id']: derive(s) for s in SHAPES}

NSLOT = 6
NMOCK = 4          # ids 0..2: movable mock type, id 3: non-movable mock type
NSEQ = 3
NOBJ = 3
NMON = 4
NTR = 3
