#!/bin/bash
# run every quick check on the current tree; one line each (used before committing / asking for vp check)
cd /verif
for p in C01 C02 C03 C04 C05 C06 C07 C08 C09 C10 C11 C12 C13 C14 C15 C16 C17 C18 C19 C20; do
  s=$(date +%s); ./check $p ${1:-quick} > build/q_$p.log 2>&1; rc=$?
  echo "$p rc=$rc $(( $(date +%s) - s ))s $(grep -c '^VIOLATION' build/q_$p.log) viol $(grep -c '^KNOWN-FINDING' build/q_$p.log) known"
done
