#!/usr/bin/env python3
"""seedcheck.py <patch.diff> <PROP> [<PROP>...]
Apply a seeded change to a scratch worktree of /repo (outside /repo and /verif), run the checks against it
(VERIF_REPO points the machinery at the scratch tree), remove the worktree.
With SEED_INPLACE=1 the patch is applied to /repo itself and reverted afterwards (git apply / git checkout -- .).
Prints one line per property: DETECTED / MISSED / ERROR."""
import os, subprocess, sys, tempfile, shutil
VERIF = os.path.dirname(os.path.dirname(os.path.abspath(__file__)))

def main():
    patch = os.path.abspath(sys.argv[1])
    props = sys.argv[2:]
    tier = os.environ.get('SEED_TIER', 'quick')
    inplace = os.environ.get('SEED_INPLACE') == '1'
    env = dict(os.environ)
    if inplace:
        st = subprocess.run(['git', '-C', '/repo', 'status', '--porcelain', '--untracked-files=no'], stdout=subprocess.PIPE, text=True).stdout.strip()
        if st:
            print('refusing: /repo has local modifications:\n' + st); return 2
        tree = '/repo'
    else:
        tree = tempfile.mkdtemp(prefix='seedrepo-', dir='/tmp')
        os.rmdir(tree)
        subprocess.run(['git', '-C', '/repo', 'worktree', 'add', '--detach', tree, 'HEAD'], check=True, stdout=subprocess.DEVNULL, stderr=subprocess.DEVNULL)
        env['VERIF_REPO'] = tree
    try:
        r = subprocess.run(['git', '-C', tree, 'apply', patch])
        if r.returncode != 0:      # the tree has moved on since the patch was made (hook / fix commits): merge instead
            r = subprocess.run(['git', '-C', tree, 'apply', '--3way', patch])
            if r.returncode == 0:
                subprocess.run(['git', '-C', tree, 'reset', '-q'])
        if r.returncode != 0:
            print('patch does not apply'); return 2
        for p in props:
            q = subprocess.run([os.path.join(VERIF, 'check'), p, tier], stdout=subprocess.PIPE, stderr=subprocess.STDOUT, text=True, cwd=VERIF, env=env)
            viol = [l for l in q.stdout.splitlines() if l.startswith('VIOLATION')]
            verdict = 'DETECTED' if (q.returncode == 1 and viol) else ('MISSED' if q.returncode == 0 else 'ERROR rc=%d' % q.returncode)
            print('%s %s: %s %s' % (os.path.basename(os.path.dirname(patch)), p, verdict, viol[:2]))
            if verdict.startswith('ERROR'):
                print(q.stdout[-1500:])
    finally:
        if inplace:
            subprocess.run(['git', '-C', '/repo', 'checkout', '--', '.'])
        else:
            subprocess.run(['git', '-C', '/repo', 'worktree', 'remove', '--force', tree])
            shutil.rmtree(tree, ignore_errors=True)
    return 0

if __name__ == '__main__':
    sys.exit(main())
