#!/usr/bin/env python3
"""seedcheck.py <patch.diff> <PROP> [<PROP>...]  - apply a seeded change to /repo, run the quick checks, undo it.
Prints one line per property: DETECTED / MISSED / ERROR."""
import os, subprocess, sys
VERIF = os.path.dirname(os.path.dirname(os.path.abspath(__file__)))
def main():
    patch = os.path.abspath(sys.argv[1])
    props = sys.argv[2:]
    tier = os.environ.get('SEED_TIER', 'quick')
    st = subprocess.run(['git', '-C', '/repo', 'status', '--porcelain', '--untracked-files=no'], stdout=subprocess.PIPE, text=True).stdout.strip()
    if st:
        print('refusing: /repo has local modifications:\n' + st); return 2
    r = subprocess.run(['git', '-C', '/repo', 'apply', patch])
    if r.returncode != 0:
        print('patch does not apply'); return 2
    try:
        for p in props:
            q = subprocess.run([os.path.join(VERIF, 'check'), p, tier], stdout=subprocess.PIPE, stderr=subprocess.STDOUT, text=True, cwd=VERIF)
            viol = [l for l in q.stdout.splitlines() if l.startswith('VIOLATION')]
            verdict = 'DETECTED' if (q.returncode == 1 and viol) else ('MISSED' if q.returncode == 0 else 'ERROR rc=%d' % q.returncode)
            print('%s %s: %s %s' % (os.path.basename(os.path.dirname(patch)), p, verdict, viol[:2]))
            if verdict.startswith('ERROR'):
                print(q.stdout[-1500:])
    finally:
        subprocess.run(['git', '-C', '/repo', 'checkout', '--', '.'])
    return 0
if __name__ == '__main__':
    sys.exit(main())
