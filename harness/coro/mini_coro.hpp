// Minimal coroutine types for the C19 / C20 harness (independent of the repository's test helpers).
//   vt::task<T, Lazy>  awaitable task; Lazy=false starts eagerly (initial_suspend never), Lazy=true on first resume
//   vt::gen<T>         lazy generator, an input range (non-awaitable), promise has yield_value + return_void
#pragma once
#include <coroutine>
#include <exception>
#include <iterator>
#include <optional>
#include <utility>
namespace vt {
template <typename T, bool Lazy> struct task;
template <typename T, bool Lazy> struct task_promise_base {
  std::exception_ptr ex;
  bool done_flag = false;
  auto initial_suspend() const noexcept { struct A { bool await_ready() const noexcept { return !Lazy; } void await_suspend(std::coroutine_handle<>) const noexcept {} void await_resume() const noexcept {} }; return A{}; }
  std::suspend_always final_suspend() const noexcept { return {}; }
  void unhandled_exception() noexcept { ex = std::current_exception(); }
};
template <typename T, bool Lazy> struct task_promise : task_promise_base<T, Lazy> {
  std::optional<T> value;
  task<T, Lazy> get_return_object() noexcept;
  void return_value(T v) { value = std::move(v); }
};
template <bool Lazy> struct task_promise<void, Lazy> : task_promise_base<void, Lazy> {
  bool returned = false;
  task<void, Lazy> get_return_object() noexcept;
  void return_void() { returned = true; }
};
template <typename T, bool Lazy = false> struct task {
  using promise_type = task_promise<T, Lazy>;
  std::coroutine_handle<promise_type> h;
  explicit task(std::coroutine_handle<promise_type> hh) : h(hh) {}
  task(task&& o) noexcept : h(std::exchange(o.h, {})) {}
  task(task const&) = delete;
  ~task() { if (h) h.destroy(); }
  bool done() const { return h.done(); }
  void resume() { if (!h.done()) h.resume(); }
  // awaitable interface (also usable directly by the driver)
  bool await_ready() const noexcept { return h.done(); }
  void await_suspend(std::coroutine_handle<>) noexcept {}
  T await_resume() {
    while (!h.done()) h.resume();
    if (h.promise().ex) std::rethrow_exception(h.promise().ex);
    if constexpr (!std::is_void_v<T>) return std::move(*h.promise().value);
  }
};
template <typename T, bool Lazy> task<T, Lazy> task_promise<T, Lazy>::get_return_object() noexcept {
  return task<T, Lazy>{std::coroutine_handle<task_promise<T, Lazy>>::from_promise(*this)};
}
template <bool Lazy> task<void, Lazy> task_promise<void, Lazy>::get_return_object() noexcept {
  return task<void, Lazy>{std::coroutine_handle<task_promise<void, Lazy>>::from_promise(*this)};
}

template <typename T> struct gen {
  struct promise_type {
    std::optional<T> cur;
    std::exception_ptr ex;
    gen get_return_object() noexcept { return gen{std::coroutine_handle<promise_type>::from_promise(*this)}; }
    std::suspend_always initial_suspend() const noexcept { return {}; }
    std::suspend_always final_suspend() const noexcept { return {}; }
    std::suspend_always yield_value(T v) { cur = std::move(v); return {}; }
    void return_void() {}
    void unhandled_exception() noexcept { ex = std::current_exception(); }
  };
  std::coroutine_handle<promise_type> h;
  explicit gen(std::coroutine_handle<promise_type> hh) : h(hh) {}
  gen(gen&& o) noexcept : h(std::exchange(o.h, {})) {}
  gen(gen const&) = delete;
  ~gen() { if (h) h.destroy(); }
  struct iterator {
    using value_type = T;
    using difference_type = std::ptrdiff_t;
    std::coroutine_handle<promise_type> h{};
    iterator& operator++() { h.resume(); if (h.done() && h.promise().ex) std::rethrow_exception(h.promise().ex); return *this; }
    void operator++(int) { ++*this; }
    T const& operator*() const { return *h.promise().cur; }
    bool operator==(std::default_sentinel_t) const { return h.done(); }
  };
  iterator begin() { iterator i{h}; ++i; return i; }
  std::default_sentinel_t end() const { return {}; }
};
}  // namespace vt

// vt::ytask<T, Lazy>: awaitable task whose promise also accepts co_yield (like the repository's coro::task):
// the consumer sees each yielded value at a suspension and the co_return value / exception at the end.
namespace vt {
template <typename T, bool Lazy> struct ytask;
template <typename T, bool Lazy> struct ytask_promise {
  std::optional<T> cur;      // last yielded value
  std::optional<T> value;    // co_return value
  std::exception_ptr ex;
  ytask<T, Lazy> get_return_object() noexcept;
  auto initial_suspend() const noexcept { struct A { bool await_ready() const noexcept { return !Lazy; } void await_suspend(std::coroutine_handle<>) const noexcept {} void await_resume() const noexcept {} }; return A{}; }
  std::suspend_always final_suspend() const noexcept { return {}; }
  std::suspend_always yield_value(T v) { cur = std::move(v); return {}; }
  void return_value(T v) { value = std::move(v); }
  void unhandled_exception() noexcept { ex = std::current_exception(); }
};
template <typename T, bool Lazy = false> struct ytask {
  using promise_type = ytask_promise<T, Lazy>;
  std::coroutine_handle<promise_type> h;
  explicit ytask(std::coroutine_handle<promise_type> hh) : h(hh) {}
  ytask(ytask&& o) noexcept : h(std::exchange(o.h, {})) {}
  ytask(ytask const&) = delete;
  ~ytask() { if (h) h.destroy(); }
  bool await_ready() const noexcept { return h.done(); }
  void await_suspend(std::coroutine_handle<>) noexcept {}
  T await_resume() {
    while (!h.done()) h.resume();
    if (h.promise().ex) std::rethrow_exception(h.promise().ex);
    return std::move(*h.promise().value);
  }
};
template <typename T, bool Lazy> ytask<T, Lazy> ytask_promise<T, Lazy>::get_return_object() noexcept {
  return ytask<T, Lazy>{std::coroutine_handle<ytask_promise<T, Lazy>>::from_promise(*this)};
}
}  // namespace vt
