#!/usr/bin/env python3
"""C09: generated program family - arity x position x passing mode x kind of mock function.
Each case is one mock type + one function that creates an expectation whose clauses observe _i
(address, value, write-through, copies, returned reference) and a local that changes between
creation and call (plain vs LR_ clauses), runs one call and logs the observations."""
import json, os, sys

MODES = ['value', 'lref', 'clref', 'rref', 'ptr', 'uptr', 'ccval', 'ccref']
KINDS = ['plain', 'const', 'overload', 'implement']
NTU = 16

def ptype(mode):
    return {'value': 'int', 'lref': 'int&', 'clref': 'int const&', 'rref': 'int&&', 'ptr': 'int*', 'uptr': 'std::unique_ptr<int>',
            'ccval': 'CC', 'ccref': 'CC const&'}[mode]

def cases(tier):
    out = []
    arities = [1, 2, 3, 7, 15] if tier == 'quick' else list(range(1, 16))
    kidx = 0
    for n in arities:
        positions = sorted({1, (n + 1) // 2, n})
        for i in positions:
            for mode in MODES:
                kinds = KINDS if (n <= 2 or (tier == 'thorough' and n <= 4)) else [KINDS[kidx % 4]]
                kidx += 1
                for k in kinds:
                    out.append(dict(n=n, i=i, mode=mode, kind=k))
    # every position of the widest arity (each clause macro has its own list of _1 .. _15 bindings),
    # by reference (identity / write-through observable) and by value; and a THROW-terminated variant
    for i in range(1, 16):
        for mode in ('lref', 'value'):
            c = dict(n=15, i=i, mode=mode, kind='plain')
            if c not in out:
                out.append(c)
        out.append(dict(n=15, i=i, mode='lref', kind='throw'))
    for n in ((3, 9, 12) if tier == 'quick' else range(1, 15)):
        for i in sorted({1, n}):
            out.append(dict(n=n, i=i, mode='lref', kind='throw'))
    for k in KINDS:
        out.append(dict(n=0, i=0, mode='none', kind=k))
    # a move-only argument handed on as the function's result (RETURN(std::move(_i))): the caller must receive the very
    # pointee it passed in - without and with a tracer installed (the tracer prints the result before it is handed back);
    # and every passing mode once more under a live tracer (the tracer prints every argument before the clauses run)
    for (n, i) in ((1, 1), (3, 2), (15, 15)):
        out.append(dict(n=n, i=i, mode='uptr', kind='moveret'))
        out.append(dict(n=n, i=i, mode='uptr', kind='moveret_tr'))
    for mode in MODES:
        out.append(dict(n=2, i=1, mode=mode, kind='traced'))
    return out

def gen_case(cid, c):
    n, i, mode, kind = c['n'], c['i'], c['mode'], c['kind']
    types = ['int'] * n
    if n:
        types[i - 1] = ptype(mode)
    # a reference parameter is also handed back as the function's result (int&, int const&, CC const&): it must be the caller's object
    refret = {'lref': 'int&', 'clref': 'int const&', 'ccref': 'CC const&'}.get(mode) if kind != 'throw' else None
    moveret = kind in ('moveret', 'moveret_tr')
    ret = refret or ('void' if kind == 'throw' else 'std::unique_ptr<int>' if moveret else 'int')
    sig = '%s(%s)' % (ret, ', '.join(types))
    const = kind == 'const'
    L = []
    name = 'M%d' % cid
    if kind == 'implement':
        L.append('struct I%d { virtual ~I%d() = default; virtual %s f(%s)%s = 0; };' % (cid, cid, ret, ', '.join(types), ' const' if False else ''))
        L.append('struct %s : trompeloeil::mock_interface<I%d> {' % (name, cid))
        L.append('  IMPLEMENT_MOCK%d(f);' % n)
        L.append('};')
    else:
        L.append('struct %s {' % name)
        L.append('  MAKE_%sMOCK%d(f, %s);' % ('CONST_' if const else '', n, sig))
        if kind == 'overload':
            on = n + 1 if n < 15 else n - 1
            L.append('  MAKE_MOCK%d(f, void(%s));' % (on, ', '.join(['Tag'] * on)))
        L.append('};')
    # the case body
    L.append('void case_%d() {' % cid)
    L.append('  %s m; int local = 1; static int dummy = 0; (void)dummy;' % name)
    if kind in ('moveret_tr', 'traced'):
        L.append('  std::ostringstream tos; trompeloeil::stream_tracer tr{tos};')
    args = []
    for j in range(1, n + 1):
        if j != i:
            L.append('  int a%d = %d;' % (j, 100 + j)); args.append('a%d' % j)
    pi = '_%d' % i
    if mode in ('value', 'lref', 'clref', 'rref'):
        L.append('  int obj = %d; g_addr = &obj;' % (100 + i))
    elif mode == 'ptr':
        L.append('  int obj = %d; g_addr = &obj;' % (100 + i))
    elif mode == 'uptr':
        L.append('  std::unique_ptr<int> obj(new int(%d)); g_addr = obj.get();' % (100 + i))
    elif mode in ('ccval', 'ccref'):
        L.append('  CC obj{%d}; g_addr = &obj;' % (100 + i))
    if n:
        addr_expr = {'ptr': 'static_cast<void const*>(%s)' % pi, 'uptr': 'static_cast<void const*>(%s.get())' % pi}.get(mode, 'static_cast<void const*>(&%s)' % pi)
        self_expr = 'static_cast<void const*>(&%s)' % pi
        val_expr = {'ptr': '*%s' % pi, 'uptr': '(%s ? *%s : -1)' % (pi, pi), 'ccval': '%s.v' % pi, 'ccref': '%s.v' % pi}.get(mode, pi)
    wild = ', '.join(['_'] * n)
    L.append('  {')
    L.append('  REQUIRE_CALL(m, f(%s))' % wild)
    L.append('    .WITH((rec(%d, F_PLAIN_W, local), true))' % cid)
    L.append('    .LR_WITH((rec(%d, F_LR_W, local), true))' % cid)
    if n:
        L.append('    .WITH((rec(%d, F_ADDR_W, %s == g_addr), g_self = %s, true))' % (cid, addr_expr, self_expr))
        L.append('    .WITH((rec(%d, F_VALUE_W, %s), true))' % (cid, val_expr))
    L.append('    .SIDE_EFFECT(rec(%d, F_PLAIN_S, local))' % cid)
    L.append('    .LR_SIDE_EFFECT(rec(%d, F_LR_S, local))' % cid)
    if n:
        L.append('    .SIDE_EFFECT(rec(%d, F_ADDR_S, %s == g_addr); rec(%d, F_STABLE_S, %s == g_self); rec(%d, F_VALUE_S, %s))' % (cid, addr_expr, cid, self_expr, cid, val_expr))
        if mode in ('lref', 'rref'):
            L.append('    .SIDE_EFFECT(%s = 77)' % pi)
        elif mode == 'ptr':
            L.append('    .SIDE_EFFECT(*%s = 77)' % pi)
    if kind == 'throw':
        L.append('    .THROW((rec(%d, F_STABLE_R, %s == g_self), rec(%d, F_RETAL, %s == g_addr), 5));' % (cid, self_expr, cid, addr_expr))
    elif moveret:
        L.append('    .RETURN((rec(%d, F_STABLE_R, %s == g_self), std::move(%s)));' % (cid, self_expr, pi))
    elif mode == 'lref':
        L.append('    .RETURN(%s);' % pi)
    elif refret:
        L.append('    .RETURN((rec(%d, F_STABLE_R, %s == g_self), %s));' % (cid, self_expr, pi))
    elif n:
        L.append('    .RETURN((rec(%d, F_STABLE_R, %s == g_self), 0));' % (cid, self_expr))
    else:
        L.append('    .RETURN(0);')
    L.append('  local = 2;')
    L.append('  CC::copies = 0;')
    callargs = []
    for j in range(1, n + 1):
        if j != i:
            callargs.append('a%d' % j)
        else:
            callargs.append({'value': 'obj', 'lref': 'obj', 'clref': 'obj', 'rref': 'std::move(obj)', 'ptr': '&obj',
                             'uptr': 'std::move(obj)', 'ccval': 'std::move(obj)', 'ccref': 'obj'}[mode])
    callee = 'static_cast<%s const&>(m)' % name if const else ('static_cast<I%d&>(m)' % cid if kind == 'implement' else 'm')
    if kind == 'throw':
        L.append('  try { %s.f(%s); } catch (int) {}' % (callee, ', '.join(callargs)))
    elif moveret:
        L.append('  std::unique_ptr<int> r = %s.f(%s); rec(%d, F_RETAL, r.get() == g_addr && r && *r == %d);' % (callee, ', '.join(callargs), cid, 100 + i))
    elif refret:
        L.append('  %s r = %s.f(%s); rec(%d, F_RETAL, &r == &obj);' % (refret, callee, ', '.join(callargs), cid))
    else:
        L.append('  (void)%s.f(%s);' % (callee, ', '.join(callargs)))
    L.append('  rec(%d, F_COPIES, CC::copies);' % cid)
    if mode in ('value', 'lref', 'clref', 'rref', 'ptr'):
        L.append('  rec(%d, F_WROTE, obj);' % cid)
    L.append('  }')
    L.append('}')
    return '\n'.join(L)

HDR = r'''// GENERATED by harness/gen_c09.py
#include <trompeloeil.hpp>
#include <cstdio>
#include <memory>
#include <sstream>
#include <utility>
using trompeloeil::_;
struct Tag {};
struct CC { int v; static int copies; CC(int x) : v(x) {} CC(CC const& o) : v(o.v) { ++copies; } CC(CC&& o) noexcept : v(o.v) {} CC& operator=(CC const&) = default; bool operator==(CC const& o) const { return v == o.v; } };
inline std::ostream& operator<<(std::ostream& os, CC const& c) { return os << "CC" << c.v; }
enum Field { F_PLAIN_W, F_LR_W, F_ADDR_W, F_VALUE_W, F_PLAIN_S, F_LR_S, F_ADDR_S, F_STABLE_S, F_VALUE_S, F_STABLE_R, F_RETAL, F_COPIES, F_WROTE };
extern void const* g_addr;
extern void const* g_self;
void rec(int id, int field, long value);
'''
MAIN = r'''
int CC::copies = 0;
void const* g_addr = nullptr;
void const* g_self = nullptr;
static FILE* g_out;
void rec(int id, int field, long value) { std::fprintf(g_out, "{\"id\":%d,\"f\":%d,\"v\":%ld}\n", id, field, value); }
@DECLS@
int main(int argc, char** argv) {
  if (argc < 2) return 2;
  g_out = std::fopen(argv[1], "w");
  trompeloeil::set_reporter([](trompeloeil::severity, char const*, unsigned long, std::string const& m) { std::fprintf(g_out, "{\"id\":-1,\"f\":-1,\"v\":0,\"report\":1}\n"); std::fflush(g_out); (void)m; });
@CALLS@
  std::fclose(g_out);
  return 0;
}
'''

def emit(outdir, tier):
    os.makedirs(outdir, exist_ok=True)
    cs = cases(tier)
    tus = [[] for _ in range(NTU)]
    for cid, c in enumerate(cs):
        tus[cid % NTU].append((cid, c))
    open(os.path.join(outdir, 'c09.hpp'), 'w').write(HDR)
    decls, calls = [], []
    for t, tu in enumerate(tus):
        body = '#include "c09.hpp"\n' + '\n'.join(gen_case(cid, c) for cid, c in tu) + '\nvoid run_tu_%d() {\n%s\n}\n' % (t, '\n'.join('  case_%d();' % cid for cid, c in tu))
        open(os.path.join(outdir, 'c09_%d.cpp' % t), 'w').write(body)
        decls.append('void run_tu_%d();' % t); calls.append('  run_tu_%d();' % t)
    open(os.path.join(outdir, 'main.cpp'), 'w').write('#include "c09.hpp"\n' + MAIN.replace('@DECLS@', '\n'.join(decls)).replace('@CALLS@', '\n'.join(calls)))
    json.dump([dict(id=cid, **c) for cid, c in enumerate(cs)], open(os.path.join(outdir, 'cases.json'), 'w'))
    return len(cs)

if __name__ == '__main__':
    print(emit(sys.argv[1], sys.argv[2] if len(sys.argv) > 2 else 'quick'))
