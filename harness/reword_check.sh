#!/bin/bash
# False-alarm regression: run every quick check against a scratch worktree of /repo whose report wording was changed
# (a behaviour-preserving change: the properties constrain the content of reports, not their wording).  Expect no VIOLATION.
set -e
wt=/tmp/reword-repo
git -C /repo worktree remove --force $wt 2>/dev/null || true
git -C /repo worktree add --detach $wt HEAD >/dev/null 2>&1
cd $wt
sed -i 's/No match for call of /No expectation matches the call of /; s/"Unfulfilled expectation"/"Unmet expectation"/; s/Match of forbidden call of /Forbidden call matched: /; s/Pending expectation on destroyed mock object/Expectation outlived its mock/' include/trompeloeil/mock.hpp
sed -i 's/Sequence mismatch for sequence/Out of sequence in/; s/Sequence expectations not met at destruction of sequence object/Sequence not completed when destroyed:/' include/trompeloeil/sequence.hpp
sed -i 's/is still alive/has not been destroyed/; s/Unexpected destruction of /Destruction not expected of /' include/trompeloeil/lifetime.hpp
cd /verif
VERIF_REPO=$wt harness/runall.sh
git -C /repo worktree remove --force $wt
