#!/bin/bash
# run every stored seeded change against the quick check of its property; one line each.  seedall.sh [lanes]
cd /verif
lanes=${1:-4}
one() {
  d=$1; id=$(basename $d)
  [ -f $d/meta.json ] || exit 0
  prop=$(python3 -c "import json;print(json.load(open('$d/meta.json'))['property'])")
  p=$d/patch.diff; [ -f $d/patch_rebased.diff ] && p=$d/patch_rebased.diff
  python3 harness/seedcheck.py $p $prop 2>&1 | tail -1 | cut -c1-120
}
export -f one
ls -d seeded/*/ | grep -v own | xargs -P $lanes -I{} bash -c 'one {}'
for p in seeded/own/*.diff; do
  prop=$(basename $p | cut -c1-3)
  python3 harness/seedcheck.py $p $prop 2>&1 | tail -1 | sed "s/^own/$(basename $p .diff)/" | cut -c1-140
done
