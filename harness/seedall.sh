#!/bin/bash
# run every stored seeded change against the quick check of its property; print one line each
cd /verif
for d in seeded/*/; do
  id=$(basename $d)
  [ -f $d/meta.json ] || continue
  prop=$(python3 -c "import json;print(json.load(open('$d/meta.json'))['property'])")
  python3 harness/seedcheck.py $d/patch.diff $prop 2>&1 | tail -1 | cut -c1-120
done
for p in seeded/own/*.diff; do
  prop=$(basename $p | cut -c1-3)
  python3 harness/seedcheck.py $p $prop 2>&1 | tail -1 | sed "s/^own/$(basename $p .diff)/" | cut -c1-140
done
