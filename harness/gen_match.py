#!/usr/bin/env python3
"""Catalogue of matcher terms (C10) and range matcher terms (C11) and the C++ driver that
evaluates the REAL trompeloeil matcher for every term against every subject value.

Every term has (a) a C++ expression building the real matcher, (b) the abstract term
{"k": kind, "v": int, "c": [children]} the TLA+ spec (Matchers.tla / Ranges.tla) interprets.
The driver logs {"id", "x", "res"}; the catalogue is merged in by the orchestrator."""
import itertools, json, os, random, re, sys

NTU = 16
VALS = [0, 1, 2]
XS = [-1, 0, 1, 2, 3]
CMP = ['eq', 'ne', 'lt', 'le', 'gt', 'ge']

def T(k, v=0, c=()):
    return {'k': k, 'v': v, 'c': list(c)}

# ----- scalar terms: (term, cpp) pairs; cpp for an int subject
def leaves(full=True):
    out = [(T('any'), '_'), (T('any'), 'ANY(int)')]
    for v in VALS:
        out.append((T('val', v), str(v)))
    for k in CMP:
        for v in VALS:
            out.append((T(k, v), 'trompeloeil::%s(%d)' % (k, v)))
            if full:
                out.append((T(k, v), 'trompeloeil::%s<int>(%d)' % (k, v)))
    return out

def is_matcher_expr(cpp):
    return not cpp.lstrip('-').isdigit() and cpp != '_'      # `!_` / `*_` are not expressible (wildcard is not printable)

SMALL = [(T('val', 0), '0'), (T('val', 1), '1'), (T('lt', 1), 'trompeloeil::lt(1)'), (T('ge', 2), 'trompeloeil::ge(2)'),
         (T('any'), 'ANY(int)'), (T('ne', 0), 'trompeloeil::ne(0)')]

def scalar_catalogue(tier, rnd):
    cat = []      # (subject kind, term, cpp)
    L = leaves()
    for t, c in L:
        cat.append(('int', t, c))
    # negation and dereference of every matcher leaf
    for t, c in L:
        if is_matcher_expr(c):
            cat.append(('int', T('not', 0, [t]), '!' + c))
            if c != '_':
                cat.append(('int', T('not', 0, [T('not', 0, [t])]), '!!' + c))
    for t, c in L:
        if is_matcher_expr(c) and c != 'ANY(int)':
            for ptr in ('ptr', 'uptr', 'sptr'):
                cat.append((ptr, T('deref', 0, [t]), '*' + c))
            cat.append(('ptr', T('not', 0, [T('deref', 0, [t])]), '!*' + c))
            cat.append(('ptr', T('deref', 0, [T('not', 0, [t])]), '*!' + c))
    # comparison with nullptr on raw and smart pointers (null-comparable arguments)
    for ptr in ('ptr', 'uptr', 'sptr'):
        cat.append((ptr, T('isnull'), 'trompeloeil::eq(nullptr)'))
        cat.append((ptr, T('not', 0, [T('isnull')]), 'trompeloeil::ne(nullptr)'))
        cat.append((ptr, T('not', 0, [T('isnull')]), '!trompeloeil::eq(nullptr)'))
        cat.append((ptr, T('any_of', 0, [T('isnull'), T('deref', 0, [T('ge', 2)])]), 'trompeloeil::any_of(trompeloeil::eq(nullptr), *trompeloeil::ge(2))'))
        cat.append((ptr, T('all_of', 0, [T('not', 0, [T('isnull')]), T('deref', 0, [T('lt', 2)])]), 'trompeloeil::all_of(trompeloeil::ne(nullptr), *trompeloeil::lt(2))'))
    cat.append(('ptr', T('any'), 'ANY(int*)'))
    cat.append(('ptr', T('any'), '_'))
    # set predicates with 0..3 operands
    for name in ('any_of', 'all_of', 'none_of'):
        cat.append(('int', T(name, 0, []), 'trompeloeil::%s()' % name))
        for n in (1, 2, 3):
            combos = list(itertools.product(SMALL, repeat=n))
            if tier == 'quick' and n == 3:
                combos = rnd.sample(combos, 60)
            for ops in combos:
                t = T(name, 0, [o[0] for o in ops])
                c = 'trompeloeil::%s(%s)' % (name, ', '.join(o[1] for o in ops))
                cat.append(('int', t, c))
                if n == 2:
                    cat.append(('int', T('not', 0, [t]), '!' + c))
    # plain operands of ANOTHER arithmetic type: compared with ==, never converted to the parameter type first
    # (4294967297 = 2^32 + 1 and 2.5 equal no int; 1.0 and 2LL equal 1 and 2)
    OTHER = [(T('val', 1000), '4294967297LL'), (T('val', 1001), '2.5'), (T('val', 1), '1.0'), (T('val', 2), '2LL'), (T('val', 1002), '4294967296LL')]
    for t, c in OTHER:
        cat.append(('int', t, c))
        for name in ('any_of', 'all_of', 'none_of'):
            cat.append(('int', T(name, 0, [t]), 'trompeloeil::%s(%s)' % (name, c)))
            cat.append(('int', T(name, 0, [t, T('val', 0)]), 'trompeloeil::%s(%s, 0)' % (name, c)))
            cat.append(('int', T('not', 0, [T(name, 0, [T('ge', 2), t])]), '!trompeloeil::%s(trompeloeil::ge(2), %s)' % (name, c)))
        cat.append(('struct', T('member', 1, [t]), 'MEMBER_IS(&S::a, %s)' % c))
        cat.append(('ptr', T('deref', 0, [T('any_of', 0, [t])]), '*trompeloeil::any_of(%s)' % c))
    # explicitly typed set predicates (the first template argument disambiguates overloads)
    for name in ('any_of', 'all_of', 'none_of'):
        cat.append(('int', T(name, 0, [T('val', 0), T('ge', 2)]), 'trompeloeil::%s<int>(0, trompeloeil::ge(2))' % name))
        cat.append(('int', T(name, 0, [T('lt', 1), T('ne', 0)]), 'trompeloeil::%s<int>(trompeloeil::lt(1), trompeloeil::ne<int>(0))' % name))
    # nested combinators (depth 3 sample)
    L2 = [(t, c) for k, t, c in cat if k == 'int' and t['k'] in ('not', 'any_of', 'all_of', 'none_of')]
    for _ in range(60 if tier == 'quick' else 600):
        name = rnd.choice(['any_of', 'all_of', 'none_of'])
        ops = [rnd.choice(L2 + SMALL) for _ in range(rnd.randint(1, 3))]
        t = T(name, 0, [o[0] for o in ops])
        c = 'trompeloeil::%s(%s)' % (name, ', '.join(o[1] for o in ops))
        cat.append(('int', t, c))
        cat.append(('ptr', T('deref', 0, [t]), '*' + c))
    # MEMBER_IS over a 2-field struct
    for fld, idx in (('a', 1), ('b', 2)):
        for t, c in SMALL + [(T('not', 0, [T('lt', 1)]), '!trompeloeil::lt(1)'),
                             (T('any_of', 0, [T('val', 0), T('ge', 2)]), 'trompeloeil::any_of(0, trompeloeil::ge(2))')]:
            cat.append(('struct', T('member', idx, [t]), 'MEMBER_IS(&S::%s, %s)' % (fld, c)))
    # strings: order-isomorphic to indices 0 "" < 1 "a" < 2 "b"
    for k in CMP:
        for v, s in enumerate(['', 'a', 'b']):
            cat.append(('str', T(k, v), 'trompeloeil::%s(std::string("%s"))' % (k, s)))
            cat.append(('str', T('not', 0, [T(k, v)]), '!trompeloeil::%s(std::string("%s"))' % (k, s)))
    cat.append(('str', T('val', 1), 'std::string("a")'))
    for k in ('eq', 'lt', 'ge'):
        cat.append(('str', T(k, 1), 'trompeloeil::%s<std::string const&>(std::string("a"))' % k))
        cat.append(('str', T(k, 1), 'trompeloeil::%s("a")' % k))          # string literal operand against a std::string argument
    # regular expressions: accept <=> non-null and found (found = independent std::regex_search in the driver)
    for pat, flags in (('a', ''), ('^b', ''), ('A', 'std::regex_constants::icase'), ('b$', ''), ('a.*b', ''),
                       ('^$', ''), ('.*', ''), ('a*', ''), ('^(ab)?$', ''), ('', '')):        # patterns that are found in the empty string
        arg = '"%s"' % pat + (', ' + flags if flags else '')
        cat.append(('cstr;' + pat + ';' + flags, T('re'), 'trompeloeil::re(%s)' % arg))
        cat.append(('cstr;' + pat + ';' + flags, T('not', 0, [T('re')]), '!trompeloeil::re(%s)' % arg))
        cat.append(('sstr;' + pat + ';' + flags, T('re'), 'trompeloeil::re(%s)' % arg))
        cat.append(('sstr;' + pat + ';' + flags, T('re'), 'trompeloeil::re<std::string const&>(%s)' % arg))
        cat.append(('cstr;' + pat + ';' + flags, T('re'), 'trompeloeil::re<char const*>(%s)' % arg))
    # match flags: re(s, match_flag) and re(s, syntax, match_flag); the independent search in the driver gets the same flags
    MF = 'std::regex_constants::'
    for pat, syn, mf in (('b$', '', 'match_not_eol'), ('^a', '', 'match_not_bol'), ('B$', 'icase', 'match_not_eol'), ('^A', 'icase', 'match_not_bol'),
                         ('a', 'ECMAScript', 'match_not_null'), ('^$', 'extended', 'match_not_null'), ('b$', 'icase', 'match_default')):
        arg = '"%s"' % pat + ((', ' + MF + syn) if syn else '') + ', ' + MF + mf
        kindtail = pat + ';' + ((MF + syn) if syn else '') + ';' + MF + mf
        for subj in ('cstr;', 'sstr;'):
            cat.append((subj + kindtail, T('re'), 'trompeloeil::re(%s)' % arg))
            cat.append((subj + kindtail, T('not', 0, [T('re')]), '!trompeloeil::re(%s)' % arg))
        cat.append(('cstr;' + kindtail, T('re'), 'trompeloeil::re<char const*>(%s)' % arg))
    # operands that are NAMED non-const objects used to build two matchers (the first must not consume them)
    for k in CMP:
        cat.append(('str', T(k, 1), 'std::string sv("a"); auto first = trompeloeil::ne(sv); (void)first; @@ trompeloeil::%s(sv)' % k))
    cat.append(('str', T('any_of', 0, [T('val', 1), T('val', 2)]), 'std::string sa("a"), sb("b"); auto first = trompeloeil::any_of(sa, sb); (void)first; @@ trompeloeil::any_of(sa, sb)'))
    cat.append(('str', T('val', 1), 'std::string sv("a"); auto first = trompeloeil::eq(sv); (void)first; @@ sv'))
    return cat

# ----- range terms
RKINDS = ['range_is', 'range_starts_with', 'range_ends_with', 'range_includes', 'range_is_permutation']
QKINDS = ['range_all_of', 'range_any_of', 'range_none_of']
ELEMS = [(T('val', 0), '0'), (T('val', 1), '1'), (T('val', 2), '2')]
MELEMS_DISJOINT = [(T('lt', 1), 'trompeloeil::lt(1)'), (T('eq', 1), 'trompeloeil::eq(1)'), (T('gt', 1), 'trompeloeil::gt(1)')]
MELEMS_OVERLAP = [(T('ge', 0), 'trompeloeil::ge(0)'), (T('ge', 1), 'trompeloeil::ge(1)'), (T('ge', 2), 'trompeloeil::ge(2)'),
                  (T('any'), 'ANY(int)')]

def range_catalogue(tier, rnd):
    cat = []   # (form, term, cpp)  form: 'elem' (variadic elements) or 'cont' (container of values)
    lists = []
    for n in range(0, 4):
        for combo in itertools.product(ELEMS, repeat=n):
            lists.append(list(combo))
    mlists = []
    for n in range(1, 4):
        for combo in itertools.product(MELEMS_DISJOINT + ELEMS[:1], repeat=n):
            mlists.append(list(combo))
        for combo in itertools.product(MELEMS_OVERLAP, repeat=n):
            mlists.append(list(combo))
    if tier == 'quick':
        lists_q = [l for l in lists if len(l) <= 2] + rnd.sample([l for l in lists if len(l) == 3], 8)
        mlists = rnd.sample(mlists, 24)
    else:
        lists_q = lists
        mlists = rnd.sample(mlists, 120)
    for k in RKINDS:
        for l in lists_q:
            t = T(k, 0, [e[0] for e in l])
            cat.append(('elem', t, 'trompeloeil::%s(%s)' % (k, ', '.join(e[1] for e in l))))
            if tier == 'thorough' or len(l) <= 2 or rnd.random() < 0.5:
                cat.append(('cont', t, 'trompeloeil::%s(std::vector<int>{%s})' % (k, ', '.join(e[1] for e in l))))
            # the expected values in a NAMED container that is used to build two matchers (the list must survive the first):
            # non-const lvalue, const lvalue, std::list lvalue, C array
            vals = ', '.join(e[1] for e in l)
            if tier == 'thorough' or len(l) <= 1 or rnd.random() < 0.4:
                cat.append(('cont-lvalue', t, 'std::vector<int> xs{%s}; @@ trompeloeil::%s(xs)' % (vals, k)))
            if tier == 'thorough' or rnd.random() < 0.15:
                cat.append(('cont-clvalue', t, 'std::vector<int> const xs{%s}; @@ trompeloeil::%s(xs)' % (vals, k)))
            if tier == 'thorough' or rnd.random() < 0.15:
                cat.append(('cont-list', t, 'std::list<int> xs{%s}; @@ trompeloeil::%s(xs)' % (vals, k)))
            if l and (tier == 'thorough' or rnd.random() < 0.15):
                cat.append(('cont-carray', t, 'int xs[] = {%s}; @@ trompeloeil::%s(xs)' % (vals, k)))
        for l in mlists:
            t = T(k, 0, [e[0] for e in l])
            cat.append(('elem', t, 'trompeloeil::%s(%s)' % (k, ', '.join(e[1] for e in l))))
    for k in QKINDS:
        for e in ELEMS + MELEMS_DISJOINT + MELEMS_OVERLAP + [(T('not', 0, [T('eq', 1)]), '!trompeloeil::eq(1)')]:
            cat.append(('elem', T(k, 0, [e[0]]), 'trompeloeil::%s(%s)' % (k, e[1])))
    # explicitly typed range matchers
    for k in RKINDS:
        cat.append(('elem', T(k, 0, [ELEMS[1][0], ELEMS[2][0]]), 'trompeloeil::%s<std::vector<int> const&>(1, 2)' % k))
    # negated range matchers
    for k in RKINDS[:3]:
        cat.append(('elem', T('not', 0, [T(k, 0, [ELEMS[0][0], ELEMS[1][0]])]), '!trompeloeil::%s(0, 1)' % k))
    return cat

HEADER = r'''// GENERATED by harness/gen_match.py
#include <trompeloeil.hpp>
#include <cstdio>
#include <deque>
#include <list>
#include <array>
#include <memory>
#include <regex>
#include <string>
#include <vector>
using trompeloeil::_;
struct S { int a; int b; };
inline std::ostream& operator<<(std::ostream& os, S const& s) { return os << "S{" << s.a << "," << s.b << "}"; }
struct MM {
  MAKE_MOCK1(fi, void(int));
  MAKE_MOCK1(fp, void(int*));
  MAKE_MOCK1(fup, void(std::unique_ptr<int> const&));
  MAKE_MOCK1(fsp, void(std::shared_ptr<int>));
  MAKE_MOCK1(fS, void(S const&));
  MAKE_MOCK1(fs, void(std::string const&));
  MAKE_MOCK1(fcs, void(char const*));
  MAKE_MOCK1(fv, void(std::vector<int> const&));
};
struct Fatal {};
extern FILE* g_out;
void init_reporter();
template <typename F> inline int probe(F&& f) { try { f(); return 1; } catch (Fatal const&) { return 0; } }
inline void logres(int id, char const* x, int res) { std::fprintf(g_out, "{\"id\":%d,\"x\":%s,\"res\":%d}\n", id, x, res); }
std::vector<std::vector<int>> const& all_ranges();
std::string rjson(std::vector<int> const& r, char const* cont);
'''

MAIN = r'''
FILE* g_out = nullptr;
void init_reporter() {
  trompeloeil::set_reporter([](trompeloeil::severity s, char const*, unsigned long, std::string const&) {
    if (s == trompeloeil::severity::fatal) throw Fatal{};
  });
}
std::vector<std::vector<int>> const& all_ranges() {
  static std::vector<std::vector<int>> rs = [] {
    std::vector<std::vector<int>> out;
    for (int n = 0; n <= 4; ++n) {
      int total = 1; for (int i = 0; i < n; ++i) total *= 3;
      for (int c = 0; c < total; ++c) { std::vector<int> r; int x = c; for (int i = 0; i < n; ++i) { r.push_back(x % 3); x /= 3; } out.push_back(r); }
    }
    return out; }();
  return rs;
}
std::string rjson(std::vector<int> const& r, char const* cont) {
  std::string s = "{\"cont\":\""; s += cont; s += "\",\"r\":[";
  for (size_t i = 0; i < r.size(); ++i) { if (i) s += ","; s += std::to_string(r[i]); }
  s += "]}"; return s;
}
@DECLS@
int main(int argc, char** argv) {
  if (argc < 2) return 2;
  g_out = std::fopen(argv[1], "w");
  if (!g_out) return 2;
  init_reporter();
@CALLS@
  std::fclose(g_out);
  return 0;
}
'''

def scalar_block(i, kind, cpp):
    if '@@' in cpp:
        pre, cpp = [x.strip() for x in cpp.split('@@')]
        return '{ ' + pre + ' ' + scalar_block(i, kind, cpp) + ' }'
    if kind == 'int':
        import re as _re
        desc = ''
        if _re.fullmatch(r'trompeloeil::(eq|ne|lt|le|gt|ge)(<int>)?\(-?\d+\)', cpp):
            # the matcher's own description (what a report prints after "Expected _1"): its operator and value
            desc = '{ std::ostringstream os; os << %s; std::fprintf(g_out, "{\\"id\\":%%d,\\"desc\\":\\"%%s\\"}\\n", %d, os.str().c_str()); } ' % (cpp, i)
        return (desc + '{ MM m; auto e = NAMED_ALLOW_CALL(m, fi(%s)); for (int x : {-1, 0, 1, 2, 3}) { char b[96]; '
                'std::snprintf(b, sizeof b, "{\\"n\\":0,\\"v\\":%%d,\\"f\\":[0,0],\\"found\\":0}", x); logres(%d, b, probe([&]{ m.fi(x); })); } }' % (cpp, i))
    if kind in ('ptr', 'uptr', 'sptr'):
        fn = {'ptr': 'fp', 'uptr': 'fup', 'sptr': 'fsp'}[kind]
        mk = {'ptr': 'int* p = isnull ? nullptr : &val;', 'uptr': 'std::unique_ptr<int> p(isnull ? nullptr : new int(val));',
              'sptr': 'std::shared_ptr<int> p(isnull ? nullptr : new int(val));'}[kind]
        return ('{ MM m; auto e = NAMED_ALLOW_CALL(m, %s(%s)); for (int x : {-99, -1, 0, 1, 2, 3}) { bool isnull = x == -99; int val = isnull ? 0 : x; %s char b[96]; '
                'std::snprintf(b, sizeof b, "{\\"n\\":%%d,\\"v\\":%%d,\\"f\\":[0,0],\\"found\\":0}", int(isnull), val); logres(%d, b, probe([&]{ m.%s(p); })); } }'
                % (fn, cpp, mk, i, fn))
    if kind == 'struct':
        return ('{ MM m; auto e = NAMED_ALLOW_CALL(m, fS(%s)); for (int a : {0, 1, 2}) for (int bb : {-1, 0, 2, 3}) { S s{a, bb}; char b[96]; '
                'std::snprintf(b, sizeof b, "{\\"n\\":0,\\"v\\":0,\\"f\\":[%%d,%%d],\\"found\\":0}", a, bb); logres(%d, b, probe([&]{ m.fS(s); })); } }' % (cpp, i))
    if kind == 'str':
        return ('{ MM m; auto e = NAMED_ALLOW_CALL(m, fs(%s)); int idx = 0; for (char const* x : {"", "a", "b"}) { char b[96]; '
                'std::snprintf(b, sizeof b, "{\\"n\\":0,\\"v\\":%%d,\\"f\\":[0,0],\\"found\\":0}", idx++); std::string xs(x); logres(%d, b, probe([&]{ m.fs(xs); })); } }' % (cpp, i))
    if kind.startswith('cstr;') or kind.startswith('sstr;'):
        # kind = subject : pattern : syntax flags [: match flags]   (flag names contain '::', split on the single colons only)
        fields = kind.split(';')
        pat = fields[1]
        flags = fields[2] if len(fields) > 2 else ''
        mflags = fields[3] if len(fields) > 3 else ''
        rx = 'std::regex rx("%s"%s);' % (pat, (', ' + flags) if flags else '')
        srch = (', ' + mflags) if mflags else ''
        if kind.startswith('cstr;'):
            return ('{ MM m; auto e = NAMED_ALLOW_CALL(m, fcs(%s)); %s for (char const* x : {(char const*)nullptr, "", "a", "b", "ab", "ba", "xaxbx", "B"}) { '
                    'int found = x ? int(std::regex_search(x, rx%s)) : 0; char b[96]; '
                    'std::snprintf(b, sizeof b, "{\\"n\\":%%d,\\"v\\":0,\\"f\\":[0,0],\\"found\\":%%d}", int(x == nullptr), found); logres(%d, b, probe([&]{ m.fcs(x); })); } }'
                    % (cpp, rx, srch, i))
        return ('{ MM m; auto e = NAMED_ALLOW_CALL(m, fs(%s)); %s for (char const* x : {"", "a", "b", "ab", "ba", "xaxbx", "B"}) { std::string xs(x); '
                'int found = int(std::regex_search(xs, rx%s)); char b[96]; '
                'std::snprintf(b, sizeof b, "{\\"n\\":0,\\"v\\":0,\\"f\\":[0,0],\\"found\\":%%d}", found); logres(%d, b, probe([&]{ m.fs(xs); })); } }'
                % (cpp, rx, srch, i))
    raise ValueError(kind)

def range_block(i, cpp):
    pre = ''
    if '@@' in cpp:
        pre, cpp = [x.strip() for x in cpp.split('@@')]
    return ('{ ' + pre + ' auto mt = %s; MM m; auto e = NAMED_ALLOW_CALL(m, fv(%s)); for (auto const& r : all_ranges()) { '
            'logres(%d, rjson(r, "vector-call").c_str(), probe([&]{ m.fv(r); })); '
            'std::list<int> l(r.begin(), r.end()); logres(%d, rjson(r, "list").c_str(), int(trompeloeil::param_matches(mt, std::ref(l)))); '
            'std::deque<int> d(r.begin(), r.end()); logres(%d, rjson(r, "deque").c_str(), int(trompeloeil::param_matches(mt, std::ref(d)))); '
            'if (r.size() == 3) { std::array<int, 3> a{{r[0], r[1], r[2]}}; logres(%d, rjson(r, "array").c_str(), int(trompeloeil::param_matches(mt, std::ref(a)))); '
            'int ca[3] = {r[0], r[1], r[2]}; logres(%d, rjson(r, "carray").c_str(), int(trompeloeil::param_matches(mt, std::ref(ca)))); } } }'
            % (cpp, cpp, i, i, i, i, i))

def emit(outdir, what, tier, seed, skip=()):
    rnd = random.Random(seed)
    os.makedirs(outdir, exist_ok=True)
    if what == 'scalar':
        cat = scalar_catalogue(tier, rnd)
        blocks = [scalar_block(i, k, c) for i, (k, t, c) in enumerate(cat)]
        catalogue = [dict(id=i, subject=k.split(';')[0], term=t, cpp=c) for i, (k, t, c) in enumerate(cat)]
    else:
        cat = range_catalogue(tier, rnd)
        # forms whose single-element compile probe failed are reported by the check and left out here
        cat = [(f, t, c) for (f, t, c) in cat if not (f == 'elem' and len(t['c']) == 1 and t['k'] in skip)]
        blocks = [range_block(i, c) for i, (f, t, c) in enumerate(cat)]
        catalogue = [dict(id=i, subject='range', form=f, term=t, cpp=c) for i, (f, t, c) in enumerate(cat)]
    with open(os.path.join(outdir, 'hdr.hpp'), 'w') as f:
        f.write(HEADER)
    tus = [[] for _ in range(NTU)]
    for i, b in enumerate(blocks):
        tus[i % NTU].append(b)
    decls, calls = [], []
    for n, tu in enumerate(tus):
        with open(os.path.join(outdir, 'm_%d.cpp' % n), 'w') as f:
            f.write('#include "hdr.hpp"\nvoid run_%d() {\n%s\n}\n' % (n, '\n'.join(tu)))
        decls.append('void run_%d();' % n)
        calls.append('  run_%d();' % n)
    with open(os.path.join(outdir, 'main.cpp'), 'w') as f:
        f.write('#include "hdr.hpp"\n' + MAIN.replace('@DECLS@', '\n'.join(decls)).replace('@CALLS@', '\n'.join(calls)))
    with open(os.path.join(outdir, 'catalogue.json'), 'w') as f:
        json.dump(catalogue, f)
    return len(catalogue)

if __name__ == '__main__':
    print(emit(sys.argv[1], sys.argv[2], sys.argv[3], int(sys.argv[4]) if len(sys.argv) > 4 else 1))

PROBE_KINDS = RKINDS + QKINDS
def probes():
    """documented legal single-element forms that must compile: (kind, description, C++ expression)"""
    out = []
    for k in PROBE_KINDS:
        out.append((k, 'single element matcher', 'trompeloeil::%s(trompeloeil::gt(1))' % k))
        out.append((k, 'single element value', 'trompeloeil::%s(1)' % k))
        if k in RKINDS:
            out.append((k, 'container of values', 'trompeloeil::%s(std::vector<int>{1})' % k))
    return out
