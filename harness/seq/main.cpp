// Sequential conformance driver: op-script interpreter + per-segment fork runner.
#include "rt.hpp"
#include <trompeloeil/stream_tracer.hpp>
#include <fcntl.h>
#include <signal.h>
#include <sys/stat.h>
#include <sys/wait.h>
#include <unistd.h>
#include <fstream>
#include <iostream>

namespace drv {

SlotCfg cfg[NSLOT + 1];
std::unique_ptr<Mock> mocks[NMOCK];
std::unique_ptr<MockN> nmock;
std::unique_ptr<WMock> wmock;
std::unique_ptr<trompeloeil::sequence> seqs[NSEQ + 1];
std::unique_ptr<trompeloeil::expectation> exps[NSLOT + 1];
std::unique_ptr<DW> objs[NOBJ + 1];
std::unique_ptr<trompeloeil::expectation> mons[NMON + 1];

struct Fatal {};

struct Rep { int r; int sev; std::string file; unsigned long line; std::string msg; };
struct Ok { int r; std::string msg; };
struct TrRec { int t; std::string file; unsigned long line; std::string msg; };
struct Cl { int k, s, i, r; };

static std::vector<Rep> reps;
static std::vector<Ok> oks;
static std::vector<TrRec> trs;
static std::vector<Cl> cls;
static std::vector<int> probes;
static bool quiet = false;
static bool probing = false;
static FILE* out = nullptr;

void logc(int kind, int slot, int idx, int res) { cls.push_back({kind, slot, idx, res}); }

bool accepts(Term t, int x)
{
  using trompeloeil::param_matches;
  switch (t.op) {
  case 0: return true;
  case 1: return param_matches(trompeloeil::eq(t.v), std::ref(x));
  case 2: return param_matches(trompeloeil::ne(t.v), std::ref(x));
  case 3: return param_matches(trompeloeil::lt(t.v), std::ref(x));
  case 4: return param_matches(trompeloeil::le(t.v), std::ref(x));
  case 5: return param_matches(trompeloeil::gt(t.v), std::ref(x));
  case 6: return param_matches(trompeloeil::ge(t.v), std::ref(x));
  }
  return false;
}

static trompeloeil::reporter_func rf(int id)
{
  return [id](trompeloeil::severity s, char const* file, unsigned long line, std::string const& msg) {
    if (probing) { probes.push_back(id); return; }
    if (!quiet) reps.push_back({id, s == trompeloeil::severity::fatal ? 0 : 1, file ? file : "", line, msg});
    if (s == trompeloeil::severity::fatal) throw Fatal{};
  };
}
static trompeloeil::ok_reporter_func okf(int id)
{
  return [id](char const* msg) {
    if (probing) { probes.push_back(100 + id); return; }
    if (!quiet) oks.push_back({id, msg ? msg : ""});
  };
}

struct Tr : trompeloeil::tracer {
  int id;
  explicit Tr(int i) : id(i) {}
  void trace(char const* file, unsigned long line, std::string const& call) override
  {
    trs.push_back({id, file ? file : "", line, call});
  }
};
struct STr {
  std::ostringstream os;
  trompeloeil::stream_tracer tr{os};
};
static std::unique_ptr<Tr> tracers[NTR + 1];
static std::unique_ptr<STr> stracers[NTR + 1];

static int do_call(int m, int f, int a, int b)
{
  if (m == NM_ID) return nmock->f(a);
  if (m == WM_ID) return static_cast<IFace&>(*wmock).f(a);
  switch (f) {
  case 1: return mocks[m]->f(a);
  case 2: return mocks[m]->f(std::string("s") + std::to_string(a));
  case 3: { Mock const& cm = *mocks[m]; return cm.g(a, b); }
  case 4: mocks[m]->v(a); return 0;
  case 5: return mocks[m]->z();
  case 6: return mocks[m]->h(a, b, b);
  case 7: { std::string r = mocks[m]->q(a); return r.size() > 1 && r[0] == 'r' ? std::atoi(r.c_str() + 1) : -77; }
  }
  return -1;
}

static int nest_depth = 0;
void nested_call(int slot)
{
  // a side effect that calls a mock function (the global lock is recursive); nesting is limited to one level
  auto& n = cfg[slot].nest;
  if (nest_depth > 0 || n[1] < 1 || n[1] > 7) return;
  if (n[0] == NM_ID) { if (!nmock || n[1] != 1) return; }
  else if (n[0] == WM_ID) { if (!wmock || n[1] != 1) return; }
  else if (n[0] < 0 || n[0] >= NMOCK || !mocks[n[0]]) return;
  struct G { G() { ++nest_depth; } ~G() { --nest_depth; } } g;
  do_call(n[0], n[1], n[2], n[3]);
}

static std::string jesc(std::string const& s)
{
  std::string o;
  for (unsigned char c : s) {
    switch (c) {
    case '"': o += "\\\""; break;
    case '\\': o += "\\\\"; break;
    case '\n': o += "\\n"; break;
    case '\t': o += "\\t"; break;
    case '\r': o += "\\r"; break;
    default:
      if (c < 0x20) { char b[8]; std::snprintf(b, sizeof b, "\\u%04x", c); o += b; }
      else o += char(c);
    }
  }
  return o;
}
static std::string base(std::string const& f)
{
  auto p = f.rfind('/');
  return p == std::string::npos ? f : f.substr(p + 1);
}

static void collect_stream_tracers()
{
  for (int t = 1; t <= NTR; ++t)
    if (stracers[t]) {
      std::string s = stracers[t]->os.str();
      if (!s.empty()) { trs.push_back({t, "<stream>", 0, s}); stracers[t]->os.str(""); }
    }
}

static void emit(char const* op, std::vector<int> const& a, int acc, int ret, std::string const& thr, int skip)
{
  collect_stream_tracers();
  std::ostringstream o;
  o << "{\"e\":\"" << op << "\",\"a\":[";
  for (size_t i = 0; i < a.size(); ++i) o << (i ? "," : "") << a[i];
  o << "],\"skip\":" << skip << ",\"acc\":" << acc << ",\"ret\":" << ret << ",\"thr\":\"" << jesc(thr) << "\",\"reps\":[";
  for (size_t i = 0; i < reps.size(); ++i)
    o << (i ? "," : "") << "{\"r\":" << reps[i].r << ",\"sev\":" << reps[i].sev << ",\"file\":\"" << jesc(base(reps[i].file))
      << "\",\"line\":" << reps[i].line << ",\"msg\":\"" << jesc(reps[i].msg) << "\"}";
  o << "],\"oks\":[";
  for (size_t i = 0; i < oks.size(); ++i)
    o << (i ? "," : "") << "{\"r\":" << oks[i].r << ",\"msg\":\"" << jesc(oks[i].msg) << "\"}";
  o << "],\"trs\":[";
  for (size_t i = 0; i < trs.size(); ++i)
    o << (i ? "," : "") << "{\"t\":" << trs[i].t << ",\"file\":\"" << jesc(base(trs[i].file)) << "\",\"line\":" << trs[i].line
      << ",\"msg\":\"" << jesc(trs[i].msg) << "\"}";
  o << "],\"cl\":[";
  for (size_t i = 0; i < cls.size(); ++i)
    o << (i ? "," : "") << "[" << cls[i].k << "," << cls[i].s << "," << cls[i].i << "," << cls[i].r << "]";
  o << "],\"probe\":[";
  for (size_t i = 0; i < probes.size(); ++i) o << (i ? "," : "") << probes[i];
  // projected state through the public API
  o << "],\"fl\":[";
  bool first = true;
  for (int s = 1; s <= NSLOT; ++s)
    if (exps[s]) {
      o << (first ? "" : ",") << "[" << s << "," << int(exps[s]->is_satisfied()) << "," << int(exps[s]->is_saturated()) << "]";
      first = false;
    }
  o << "],\"mon\":[";
  first = true;
  for (int k = 1; k <= NMON; ++k)
    if (mons[k]) {
      o << (first ? "" : ",") << "[" << k << "," << int(mons[k]->is_satisfied()) << "," << int(mons[k]->is_saturated()) << "]";
      first = false;
    }
  o << "],\"comp\":[";
  first = true;
  for (int q = 1; q <= NSEQ; ++q)
    if (seqs[q]) {
      o << (first ? "" : ",") << "[" << q << "," << int(seqs[q]->is_completed()) << "]";
      first = false;
    }
  o << "]}\n";
  std::string s = o.str();
  fwrite(s.data(), 1, s.size(), out);
  fflush(out);
  reps.clear(); oks.clear(); trs.clear(); cls.clear(); probes.clear();
}

static bool okm(int m) { return m >= 0 && m < NMOCK; }
static bool oks_(int s) { return s >= 1 && s <= NSLOT; }
static bool okq(int q) { return q >= 1 && q <= NSEQ; }
static bool oko(int o) { return o >= 1 && o <= NOBJ; }
static bool okk(int k) { return k >= 1 && k <= NMON; }
static bool okt(int t) { return t >= 1 && t <= NTR; }

static bool okm(int m); static bool oks_(int s); static bool okq(int q); static bool oko(int o); static bool okk(int k); static bool okt(int t);
static bool scoped_exp[NSLOT + 1];
static bool scoped_mon[NMON + 1];
static void run_op(std::string const& line);

// runs lines[i..] until the matching `endscope` (or the end); returns the index after it
static size_t run_block(std::vector<std::string> const& lines, size_t i)
{
  while (i < lines.size()) {
    std::string const& line = lines[i];
    if (line.compare(0, 8, "endscope") == 0) return i + 1;
    if (line.compare(0, 6, "scope ") == 0 || line.compare(0, 7, "mscope ") == 0) {
      bool mon = line[0] == 'm';
      std::istringstream is(line); std::string op; is >> op;
      std::vector<int> a; int x; while (is >> x) a.push_back(x);
      auto A = [&](size_t k) { return k < a.size() ? a[k] : 0; };
      size_t next = i + 1;
      std::string thr; bool ran = false;
      auto body = [&] { ran = true; next = run_block(lines, i + 1); };
      try {
        if (!mon) {
          int s = A(0);
          if (oks_(s) && !exps[s] && !scoped_exp[s] && ((A(2) == NM_ID && nmock) || (okm(A(2)) && mocks[A(2)]))) {
            SlotCfg& c = cfg[s]; c = SlotCfg{}; c.mock = A(2);
            c.p[0] = {A(3), A(4)}; c.p[1] = {A(5), A(6)};
            c.w[0] = {A(7), A(8)}; c.w[1] = {A(9), A(10)}; c.w[2] = {A(11), A(12)};
            c.se[0] = A(13); c.se[1] = A(14); c.se[2] = A(15);
            c.retv = A(16); c.lo = A(17); c.hi = A(18); c.q[0] = A(19); c.q[1] = A(20);
            c.nest[0] = a.size() > 21 ? A(21) : -1; c.nest[1] = A(22); c.nest[2] = A(23); c.nest[3] = A(24);
            scoped_exp[s] = true;
            struct Clr { bool& b; ~Clr() { b = false; } } clr{scoped_exp[s]};
            make_scoped(s, A(1), [&] { emit("sexpect", a, 1, 0, "", 0); }, body);
            scoped_exp[s] = false;
            emit("release", {s}, 1, 0, "", 0);          // scope exit: the expectation's lifetime ended
          } else { emit("sexpect", a, 1, 0, "", 1); }
        } else {
          int k = A(0), o = A(1), nq = A(2);
          if (okk(k) && !mons[k] && !scoped_mon[k] && oko(o) && objs[o]) {
            scoped_mon[k] = true;
            struct Clr { bool& b; ~Clr() { b = false; } } clr{scoped_mon[k]};
            make_scoped_monitor(k, o, nq, A(3), A(4), [&] { emit("swatch", a, 1, 0, "", 0); }, body);
            scoped_mon[k] = false;
            emit("unwatch", {k}, 1, 0, "", 0);
          } else { emit("swatch", a, 1, 0, "", 1); }
        }
      }
      catch (std::exception const& e) { thr = std::string("std:") + e.what(); emit(mon ? "swatch" : "sexpect", a, 1, 0, thr, 0); }
      if (!ran) {             // the scope body was not entered: skip its lines
        int depth = 1; size_t j = i + 1;
        while (j < lines.size() && depth > 0) {
          if (lines[j].compare(0, 6, "scope ") == 0 || lines[j].compare(0, 7, "mscope ") == 0) ++depth;
          else if (lines[j].compare(0, 8, "endscope") == 0) --depth;
          ++j;
        }
        next = j;
      }
      i = next;
      continue;
    }
    run_op(line);
    ++i;
  }
  return i;
}

static void run_op(std::string const& line)
{
  std::istringstream is(line);
  std::string op;
  is >> op;
  std::vector<int> a;
  int x;
  while (is >> x) a.push_back(x);
  auto A = [&](size_t i) { return i < a.size() ? a[i] : 0; };
  int acc = 1, ret = 0;
  std::string thr;
  bool skip = false;
  try {
    if (op == "mock") {
      if (A(0) == WM_ID && !wmock) wmock = std::make_unique<WMock>(); else if (A(0) == NM_ID && !nmock) nmock = std::make_unique<MockN>(); else if (okm(A(0)) && !mocks[A(0)]) mocks[A(0)] = std::make_unique<Mock>(); else skip = true;
    } else if (op == "seq") {
      if (okq(A(0)) && !seqs[A(0)]) seqs[A(0)] = std::make_unique<trompeloeil::sequence>(); else skip = true;
    } else if (op == "expect") {
      // expect slot shape mock p1op p1v p2op p2v w1op w1v w2op w2v w3op w3v se1 se2 se3 retv lo hi q1 q2 [nm nf na nb]
      int s = A(0);
      if (!oks_(s) || exps[s] || scoped_exp[s] || !((A(2) == WM_ID && wmock) || (A(2) == NM_ID && nmock) || (okm(A(2)) && mocks[A(2)]))) skip = true;
      else {
        SlotCfg& c = cfg[s];
        c = SlotCfg{};
        c.mock = A(2);
        c.p[0] = {A(3), A(4)}; c.p[1] = {A(5), A(6)};
        c.w[0] = {A(7), A(8)}; c.w[1] = {A(9), A(10)}; c.w[2] = {A(11), A(12)};
        c.se[0] = A(13); c.se[1] = A(14); c.se[2] = A(15);
        c.retv = A(16); c.lo = A(17); c.hi = A(18);
        c.q[0] = A(19); c.q[1] = A(20);
        c.nest[0] = a.size() > 21 ? A(21) : -1; c.nest[1] = A(22); c.nest[2] = A(23); c.nest[3] = A(24);
        if ((c.q[0] && (!okq(c.q[0]) || !seqs[c.q[0]])) || (c.q[1] && (!okq(c.q[1]) || !seqs[c.q[1]]))) skip = true;
        else if (!make_expectation(s, A(1))) skip = true;
      }
    } else if (op == "call") {
      if ((A(0) == WM_ID && wmock && A(1) == 1) || (A(0) == NM_ID && nmock && A(1) == 1) || (okm(A(0)) && mocks[A(0)])) ret = do_call(A(0), A(1), A(2), A(3)); else skip = true;
    } else if (op == "release") {
      if (oks_(A(0)) && exps[A(0)]) exps[A(0)].reset(); else skip = true;
    } else if (op == "dmock") {
      if (A(0) == WM_ID && wmock) wmock.reset(); else if (A(0) == NM_ID && nmock) nmock.reset(); else if (okm(A(0)) && mocks[A(0)]) mocks[A(0)].reset(); else skip = true;
    } else if (op == "mmock") {
      if (okm(A(0)) && okm(A(1)) && mocks[A(0)] && !mocks[A(1)]) mocks[A(1)] = std::make_unique<Mock>(std::move(*mocks[A(0)]));
      else skip = true;
    } else if (op == "dseq") {
      if (okq(A(0)) && seqs[A(0)]) seqs[A(0)].reset(); else skip = true;
    } else if (op == "obj") {
      if (oko(A(0)) && !objs[A(0)]) objs[A(0)] = std::make_unique<DW>(); else skip = true;
    } else if (op == "watch") {
      // watch k o nq q1 q2
      int k = A(0), o = A(1), nq = A(2);
      if (o == WM_ID) { if (!okk(k) || mons[k] || scoped_mon[k] || !wmock || (nq >= 1 && (!okq(A(3)) || !seqs[A(3)])) || (nq >= 2 && (!okq(A(4)) || !seqs[A(4)])) || !make_wmonitor(k, nq, A(3), A(4))) skip = true; }
      else if (!okk(k) || mons[k] || scoped_mon[k] || !oko(o) || !objs[o] || (nq >= 1 && (!okq(A(3)) || !seqs[A(3)])) || (nq >= 2 && (!okq(A(4)) || !seqs[A(4)])))
        skip = true;
      else if (!make_monitor(k, o, nq, A(3), A(4))) skip = true;
    } else if (op == "unwatch") {
      if (okk(A(0)) && mons[A(0)]) mons[A(0)].reset(); else skip = true;
    } else if (op == "dobj") {
      if (oko(A(0)) && objs[A(0)]) objs[A(0)].reset(); else skip = true;
    } else if (op == "cpobj") {
      if (oko(A(0)) && oko(A(1)) && objs[A(0)] && !objs[A(1)]) { DW const& src = *objs[A(0)]; objs[A(1)] = std::make_unique<DW>(src); }
      else skip = true;
    } else if (op == "cpobjn") {         // copy from a NON-const lvalue: deathwatched's forwarding constructor template is chosen
      if (oko(A(0)) && oko(A(1)) && objs[A(0)] && !objs[A(1)]) { DW& src = *objs[A(0)]; objs[A(1)] = std::make_unique<DW>(src); }
      else skip = true;
    } else if (op == "mvobj") {
      if (oko(A(0)) && oko(A(1)) && objs[A(0)] && !objs[A(1)]) objs[A(1)] = std::make_unique<DW>(std::move(*objs[A(0)]));
      else skip = true;
    } else if (op == "asobj") {          // *o = *o2 (copy assignment)
      if (oko(A(0)) && oko(A(1)) && objs[A(0)] && objs[A(1)]) { DW const& src = *objs[A(1)]; *objs[A(0)] = src; }
      else skip = true;
    } else if (op == "masobj") {         // *o = std::move(*o2)
      if (oko(A(0)) && oko(A(1)) && objs[A(0)] && objs[A(1)]) *objs[A(0)] = std::move(*objs[A(1)]);
      else skip = true;
    } else if (op == "tracer") {          // tracer t kind(1 custom, 2 stream)
      int t = A(0);
      if (!okt(t) || tracers[t] || stracers[t]) skip = true;
      else if (A(1) == 2) stracers[t] = std::make_unique<STr>();
      else tracers[t] = std::make_unique<Tr>(t);
    } else if (op == "dtracer") {
      int t = A(0);
      if (okt(t) && tracers[t]) tracers[t].reset();
      else if (okt(t) && stracers[t]) { collect_stream_tracers(); stracers[t].reset(); }
      else skip = true;
    } else if (op == "setrep") {          // setrep r withok
      int r = A(0);
      if (A(1)) {
        auto prev = trompeloeil::set_reporter(rf(r), okf(r));
        probing = true;
        try { prev.first(trompeloeil::severity::nonfatal, "probe", 0, "probe"); } catch (...) { probes.push_back(0); }
        try { prev.second("probe"); } catch (...) { probes.push_back(100); }
        probing = false;
      } else {
        auto prev = trompeloeil::set_reporter(rf(r));
        probing = true;
        try { prev(trompeloeil::severity::nonfatal, "probe", 0, "probe"); } catch (...) { probes.push_back(0); }
        probing = false;
      }
    } else if (op == "nop") {
    } else {
      skip = true;
    }
  }
  catch (Fatal const&) { acc = 0; }
  catch (std::logic_error const& e) { thr = std::string("logic:") + e.what(); }
  catch (std::exception const& e) { thr = std::string("std:") + e.what(); }
  catch (int i) { thr = "int:" + std::to_string(i); }
  catch (...) { thr = "unk"; }
  emit(op.c_str(), a, acc, ret, thr, skip ? 1 : 0);
}

static void on_terminate()
{
  static char const msg[] = "{\"e\":\"terminate\"}\n";
  if (out) { fwrite(msg, 1, sizeof msg - 1, out); fflush(out); }
  _exit(42);
}

static int run_segment(std::vector<std::string> const& ops)
{
  std::set_terminate(on_terminate);
  trompeloeil::set_reporter(rf(1), okf(1));
  run_block(ops, 0);
  // quiet final tear-down of whatever the script left alive
  quiet = true;
  try {
    for (int s = 1; s <= NSLOT; ++s) exps[s].reset();
    for (int k = 1; k <= NMON; ++k) mons[k].reset();
    for (int o = 1; o <= NOBJ; ++o) objs[o].reset();
    for (int m = 0; m < NMOCK; ++m) mocks[m].reset();
    nmock.reset();
    wmock.reset();
    for (int q = 1; q <= NSEQ; ++q) seqs[q].reset();
    // tracers: only a LIFO-safe order is used here (creation order unknown -> destroy those whose
    // destruction is the script's business; the generator always destroys tracers explicitly)
    for (int t = NTR; t >= 1; --t) { tracers[t].reset(); stracers[t].reset(); }
  } catch (...) {}
  fputs("{\"e\":\"fin\"}\n", out);
  fflush(out);
  return 0;
}

}  // namespace drv

int main(int argc, char** argv)
{
  if (argc < 3) { std::fprintf(stderr, "usage: %s script out.ndjson [timeout_s]\n", argv[0]); return 2; }
  int tmo = argc > 3 ? std::atoi(argv[3]) : 20;
  std::ifstream in(argv[1]);
  if (!in) { std::perror(argv[1]); return 2; }
  std::vector<std::pair<std::string, std::vector<std::string>>> segs;
  std::string line;
  while (std::getline(in, line)) {
    if (line.empty() || line[0] == '#') continue;
    if (line.compare(0, 4, "seg ") == 0) segs.push_back({line.substr(4), {}});
    else if (!segs.empty()) segs.back().second.push_back(line);
  }
  FILE* o = std::fopen(argv[2], "w");
  if (!o) { std::perror(argv[2]); return 2; }
  std::string errpath = std::string(argv[2]) + ".err";
  for (auto const& sg : segs) {
    std::fprintf(o, "{\"e\":\"seg\",\"id\":\"%s\"}\n", sg.first.c_str());
    std::fflush(o);
    pid_t pid = fork();
    if (pid < 0) { std::perror("fork"); return 2; }
    if (pid == 0) {
      int fd = open(errpath.c_str(), O_WRONLY | O_CREAT | O_TRUNC, 0644);
      if (fd >= 0) { dup2(fd, 2); close(fd); }
      drv::out = o;
      alarm(tmo);
      int rc = drv::run_segment(sg.second);
      std::fflush(o);
      std::exit(rc);      // normal exit: runs LeakSanitizer
    }
    int st = 0;
    waitpid(pid, &st, 0);
    int code = WIFEXITED(st) ? WEXITSTATUS(st) : 0;
    int sig = WIFSIGNALED(st) ? WTERMSIG(st) : 0;
    std::string san;
    {
      std::ifstream e(errpath);
      std::string l;
      int n = 0;
      while (std::getline(e, l) && n < 400) {
        ++n;
        if (l.find("ERROR: AddressSanitizer") != std::string::npos || l.find("ERROR: LeakSanitizer") != std::string::npos ||
            l.find("runtime error:") != std::string::npos || l.find("SUMMARY:") != std::string::npos ||
            l.find("Assertion") != std::string::npos || l.find("    #0 ") != std::string::npos ||
            l.find("    #1 ") != std::string::npos || l.find("    #2 ") != std::string::npos || l.find("    #3 ") != std::string::npos) {
          if (san.size() < 1500) { san += l; san += " | "; }
        }
      }
    }
    // the child appended to the same file description; make sure we append after it
    std::fseek(o, 0, SEEK_END);
    std::fprintf(o, "{\"e\":\"endseg\",\"id\":\"%s\",\"exit\":%d,\"sig\":%d,\"san\":\"%s\"}\n", sg.first.c_str(), code, sig,
                 drv::jesc(san).c_str());
    std::fflush(o);
  }
  std::fclose(o);
  unlink(errpath.c_str());
  return 0;
}
