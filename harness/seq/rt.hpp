// Runtime of the sequential conformance driver.  It interprets op scripts
// against the REAL trompeloeil headers of /repo and records every observable.
// It computes nothing about expected behaviour (the TLA+ spec is the oracle).
#pragma once
#include <trompeloeil.hpp>
#include <cstdio>
#include <cstdlib>
#include <cstring>
#include <functional>
#include <memory>
#include <sstream>
#include <stdexcept>
#include <string>
#include <vector>

namespace drv {

constexpr int NSLOT = 6, NMOCK = 3, NSEQ = 3, NOBJ = 3, NMON = 4, NTR = 3;
constexpr size_t INF = 99;

struct Term { int op = 0; int v = 0; };   // 0 any,1 eq,2 ne,3 lt,4 le,5 gt,6 ge
struct SlotCfg {
  int mock = 0;
  Term p[3];                               // p[2] (third parameter of h) always accepts
  Term w[3];
  int se[3] = {0, 0, 0};                   // 0 nothing, 1 throw std, 2 throw int, 3 nested call
  int retv = 0;
  int lo = 1, hi = 1;
  int q[2] = {0, 0};
  int nest[4] = {0, 0, 0, 0};              // nested call issued by a side effect with behaviour 3: m f a b
};

struct Mock {
  static constexpr bool trompeloeil_movable_mock = true;
  MAKE_MOCK1(f, int(int));
  MAKE_MOCK1(f, int(std::string const&));
  MAKE_CONST_MOCK2(g, int(int, int));
  MAKE_MOCK1(v, void(int));
  MAKE_MOCK0(z, int());
  MAKE_MOCK3(h, int(int, int, int));
  MAKE_MOCK1(q, std::string(int));
};

struct MockN {            // the default, NON-movable kind of mock object (mock id 3 of the scripts); arity-less macro form
  MAKE_MOCK(f, auto (int) -> int);
};

struct IFace {            // an interface, mocked through mock_interface<> / IMPLEMENT_MOCKn and called through the base
  virtual ~IFace() = default;
  virtual int f(int) = 0;
};
struct VMock : trompeloeil::mock_interface<IFace> {   // used as deathwatched<VMock> (mock id 4 == object id 4)
  IMPLEMENT_MOCK1(f);
};
using WMock = trompeloeil::deathwatched<VMock>;

struct Obj {
  Obj() = default;
  Obj(Obj const&) = default;
  Obj(Obj&&) = default;
  Obj& operator=(Obj const&) = default;
  Obj& operator=(Obj&&) = default;
  virtual ~Obj() = default;
  int payload = 0;
};
using DW = trompeloeil::deathwatched<Obj>;

extern SlotCfg cfg[NSLOT + 1];
extern std::unique_ptr<Mock> mocks[NMOCK];
extern std::unique_ptr<MockN> nmock;
constexpr int NM_ID = 3;
extern std::unique_ptr<WMock> wmock;
constexpr int WM_ID = 4;
extern std::unique_ptr<trompeloeil::sequence> seqs[NSEQ + 1];
extern std::unique_ptr<trompeloeil::expectation> exps[NSLOT + 1];
extern std::unique_ptr<DW> objs[NOBJ + 1];
extern std::unique_ptr<trompeloeil::expectation> mons[NMON + 1];

void logc(int kind, int slot, int idx, int res);   // clause log: 1 P, 2 W, 3 S, 4 R
bool accepts(Term t, int x);                        // via the real comparison matchers
void nested_call(int slot);
inline size_t ub(int hi) { return hi >= int(INF) ? ~static_cast<size_t>(0) : static_cast<size_t>(hi); }

inline int sval(std::string const& s) { return s.size() > 1 ? std::atoi(s.c_str() + 1) : -99; }

// typed run-time parameter matchers
inline auto PM(int slot, int i)
{
  return trompeloeil::make_matcher<int>(
    [slot, i](int x) { bool r = accepts(cfg[slot].p[i], x); logc(1, slot, i + 1, r); return r; },
    [slot, i](std::ostream& os) { os << " T(" << slot << "," << i + 1 << ")"; });
}
inline auto PMS(int slot)
{
  return trompeloeil::make_matcher<std::string>(
    [slot](std::string const& x) { bool r = accepts(cfg[slot].p[0], sval(x)); logc(1, slot, 1, r); return r; },
    [slot](std::ostream& os) { os << " T(" << slot << ",1)"; });
}
inline bool WC(int slot, int k, int x)
{
  bool r = accepts(cfg[slot].w[k - 1], x);
  logc(2, slot, k, r);
  return r;
}
inline bool WC(int slot, int k, std::string const& x) { return WC(slot, k, sval(x)); }
inline void SE(int slot, int k)
{
  logc(3, slot, k, 0);
  switch (cfg[slot].se[k - 1]) {
  case 1: throw std::runtime_error("se" + std::to_string(slot) + "." + std::to_string(k));
  case 2: throw 7;
  case 3: nested_call(slot); break;
  default: break;
  }
}
inline int RV(int slot) { logc(4, slot, 0, 0); return cfg[slot].retv; }
inline std::runtime_error TH(int slot) { logc(4, slot, 0, 0); return std::runtime_error("th" + std::to_string(slot)); }
inline int TI(int slot) { logc(4, slot, 0, 0); return 40 + slot; }

// generated: one source line per (slot, shape); returns false for an unknown pair
bool make_expectation(int slot, int shape);
bool make_monitor(int k, int o, int nq, int q1, int q2);
bool make_wmonitor(int k, int nq, int q1, int q2);
bool make_scoped(int slot, int shape, std::function<void()> const& created, std::function<void()> const& body);
bool make_scoped_monitor(int k, int o, int nq, int q1, int q2, std::function<void()> const& created, std::function<void()> const& body);

}  // namespace drv
