#!/bin/bash
# refcheck.sh <patch> <tag>: apply a (supposedly behaviour-preserving) patch to a scratch worktree of /repo and run all 20 quick
# checks against it.  Any VIOLATION is either a false alarm of the machinery or a behaviour change of the patch: decide by reading.
patch=$(readlink -f "$1"); tag=$2
wt=/tmp/refrepo-$tag
cd /verif
git -C /repo worktree remove --force $wt 2>/dev/null
git -C /repo worktree add --detach $wt HEAD >/dev/null 2>&1 || exit 2
if ! git -C $wt apply "$patch"; then echo "$tag: patch does not apply"; git -C /repo worktree remove --force $wt; exit 2; fi
mkdir -p build/ref_$tag
for p in C01 C02 C03 C04 C05 C06 C07 C08 C09 C10 C11 C12 C13 C14 C15 C16 C17 C18 C19 C20; do
  s=$(date +%s); VERIF_REPO=$wt ./check $p quick > build/ref_$tag/$p.log 2>&1; rc=$?
  echo "$tag $p rc=$rc $(( $(date +%s) - s ))s $(grep -c '^VIOLATION' build/ref_$tag/$p.log) viol"
  # keep the replay files of this run (the next check of the same property would clear them)
  if [ $rc -ne 0 ]; then mkdir -p build/ref_$tag/replay; for f in $(grep '^VIOLATION' build/ref_$tag/$p.log | sed 's/.*replay=//' | head -3); do cp "$f" build/ref_$tag/replay/ 2>/dev/null; done; fi
done
git -C /repo worktree remove --force $wt
