#!/usr/bin/env python3
"""Op-script generators (profiles) for the sequential driver.

A generator only tracks which handles are alive (caller obligations: no use of
a destroyed object) - it knows nothing about expected behaviour.  All random
choices come from random.Random(seed)."""
import itertools, os, random, sys
sys.path.insert(0, os.path.dirname(os.path.abspath(__file__)))
from shapes import DERIVED, NSLOT, NMOCK, NSEQ, NOBJ, NMON, NTR, INF, SCOPED_IDS, NONMOVABLE_IDS
NM_ID = 3
WM_ID = 4
from shapes import WATCHED_IDS
WM_SHAPES = sorted(WATCHED_IDS)
NM_SHAPES = sorted(NONMOVABLE_IDS - SCOPED_IDS)
NM_SCOPED = sorted(NONMOVABLE_IDS & SCOPED_IDS)

TERMS_SMALL = [(0, 0), (1, 0), (1, 1), (2, 0), (3, 2), (6, 1)]
BOUNDS_ALL = [(l, h) for l in range(0, 4) for h in list(range(0, 4)) + [INF] if True]

class Live:
    def __init__(self):
        self.mocks, self.seqs, self.slots, self.objs, self.mons, self.trs = set(), set(), {}, set(), {}, []
        self.scopes = []           # open scopes, innermost last: ('e', slot) or ('m', monitor)
        self.deadseq_users = False

def expect_line(slot, shape, mock, p=((0, 0), (0, 0)), w=((0, 0), (0, 0), (0, 0)), se=(0, 0, 0), retv=None, lo=1, hi=1, q=(0, 0), nest=None):
    if retv is None:
        retv = 100 * slot + shape
    v = [slot, shape, mock, p[0][0], p[0][1], p[1][0], p[1][1], w[0][0], w[0][1], w[1][0], w[1][1], w[2][0], w[2][1],
         se[0], se[1], se[2], retv, lo, hi, q[0], q[1]]
    if nest:
        v += list(nest)
    return 'expect ' + ' '.join(str(x) for x in v)

class Profile:
    """weighted random op generator"""
    def __init__(self, name, shapes, weights, nmock=2, nseq=2, nslot=NSLOT, args=(0, 1, 2), terms=TERMS_SMALL,
                 bounds=((1, 1), (0, 1), (1, 2), (2, 2), (0, INF), (1, INF), (0, 0), (2, 3)), se_beh=(0,), seglen=(8, 30),
                 allow_bad_bounds=True, forbid_seq=False, fns=(1, 1, 2, 3, 4, 5, 6, 7), tracer_kinds=(1, 2), multi_mon=True,
                 prelude=(), scoped_shapes=tuple(sorted(SCOPED_IDS - NONMOVABLE_IDS)), use_nm=True, use_wm=True):
        self.__dict__.update(locals())

    def gen_segment(self, rnd):
        L = Live()
        ops = []
        def add(op):
            ops.append(op)
        for p in self.prelude:
            self.apply(p, L, rnd, add)
        n = rnd.randint(*self.seglen)
        kinds = list(self.weights.keys())
        wts = [self.weights[k] for k in kinds]
        tries = 0
        while len(ops) < n and tries < n * 20:
            tries += 1
            k = rnd.choices(kinds, wts)[0]
            self.apply(k, L, rnd, add)
        while L.scopes:
            self.apply('endscope', L, rnd, add)
        return ops

    def apply(self, k, L, rnd, add):
        P = self
        if k == 'mock':
            free = [m for m in range(P.nmock) if m not in L.mocks] + ([NM_ID] if P.use_nm and NM_ID not in L.mocks else []) \
                   + ([WM_ID] if P.use_wm and WM_ID not in L.mocks else [])
            if free:
                m = rnd.choice(free); L.mocks.add(m); add('mock %d' % m)
        elif k == 'seq':
            free = [q for q in range(1, P.nseq + 1) if q not in L.seqs]
            if free:
                q = rnd.choice(free); L.seqs.add(q); add('seq %d' % q)
        elif k == 'expect':
            free = [s for s in range(1, P.nslot + 1) if s not in L.slots]
            if not free or not L.mocks:
                return
            s = rnd.choice(free)
            m = rnd.choice(sorted(L.mocks))
            pool = NM_SHAPES if m == NM_ID else (WM_SHAPES if m == WM_ID else P.shapes)
            cands = [sh for sh in pool if DERIVED[sh]['nq'] <= len(L.seqs)]
            if not cands:
                return
            sh = rnd.choice(cands)
            d = DERIVED[sh]
            lo, hi = rnd.choice(P.bounds)
            if d['nq'] > 0 and not P.forbid_seq and d['rt']:
                while hi == 0:
                    lo, hi = rnd.choice(P.bounds)
            if P.allow_bad_bounds and d['rtk'] == 1 and rnd.random() < 0.04:
                lo, hi = 2, 1
            if d['rtk'] == 2 and hi == INF:       # RT_TIMES(n): exactly n, a finite n
                hi = max(lo, 1)
            q = rnd.sample(sorted(L.seqs), d['nq']) + [0, 0]
            p = (rnd.choice(P.terms), rnd.choice(P.terms))
            w = tuple(rnd.choice(P.terms) if rnd.random() < 0.6 else (0, 0) for _ in range(3))
            se = tuple(rnd.choice(P.se_beh) for _ in range(3))
            nest = None
            if 3 in se:
                # the effect calls a one-parameter function of some live mock (f(int) or v(int)) with an argument of the domain
                nm_ = rnd.choice(sorted(L.mocks))
                nest = (nm_, 1 if nm_ in (NM_ID, WM_ID) else rnd.choice([1, 1, 4]), rnd.choice(P.args), 0)
            add(expect_line(s, sh, m, p, w, se, 100 * s + rnd.randint(0, 9), lo, hi, (q[0], q[1]), nest))
            if not (d['rtk'] == 1 and lo > hi):
                L.slots[s] = sh
        elif k == 'scope':          # a scoped macro form: REQUIRE_CALL / ALLOW_CALL / FORBID_CALL (and _V): lifetime = the block
            free = [s for s in range(1, P.nslot + 1) if s not in L.slots]
            cands = [sh for sh in P.scoped_shapes if DERIVED[sh]['nq'] <= len(L.seqs)]
            if not free or not L.mocks or not cands or len(L.scopes) >= 3:
                return
            s = rnd.choice(free)
            m = rnd.choice(sorted(L.mocks))
            if m == WM_ID:
                return
            sh = rnd.choice(NM_SCOPED if m == NM_ID else cands)
            d = DERIVED[sh]
            lo, hi = rnd.choice([b for b in P.bounds if b[0] <= b[1] and b[1] > 0])
            q = rnd.sample(sorted(L.seqs), d['nq']) + [0, 0]
            p = (rnd.choice(P.terms), rnd.choice(P.terms))
            w = tuple(rnd.choice(P.terms) if rnd.random() < 0.6 else (0, 0) for _ in range(3))
            add('scope' + expect_line(s, sh, m, p, w, (0, 0, 0), 100 * s + rnd.randint(0, 9), lo, hi, (q[0], q[1]))[len('expect'):])
            L.slots[s] = sh
            L.scopes.append(('e', s))
        elif k == 'mscope':         # scoped REQUIRE_DESTRUCTION
            free = [x for x in range(1, NMON + 1) if x not in L.mons]
            objs = sorted(L.objs) if P.multi_mon else [o for o in sorted(L.objs) if o not in L.mons.values()]
            if not free or not objs or len(L.scopes) >= 3:
                return
            kk = rnd.choice(free); o = rnd.choice(objs)
            nq = min(rnd.choice([0, 1, 2]) if L.seqs else 0, len(L.seqs))
            q = rnd.sample(sorted(L.seqs), nq) + [0, 0]
            L.mons[kk] = o
            L.scopes.append(('m', kk))
            add('mscope %d %d %d %d %d' % (kk, o, nq, q[0], q[1]))
        elif k == 'endscope':
            if L.scopes:
                kind, ident = L.scopes.pop()
                if kind == 'e':
                    L.slots.pop(ident, None)
                else:
                    L.mons.pop(ident, None)
                add('endscope')
        elif k == 'call':
            if not L.mocks:
                return
            m = rnd.choice(sorted(L.mocks))
            f = 1 if m in (NM_ID, WM_ID) else rnd.choice(P.fns)
            add('call %d %d %d %d' % (m, f, rnd.choice(P.args), rnd.choice(P.args)))
        elif k == 'call_live':      # call a function that has a live expectation
            if not L.mocks or not L.slots:
                return
            s = rnd.choice(sorted(L.slots))
            f = DERIVED[L.slots[s]]['fn']
            m = rnd.choice(sorted(L.mocks))
            if m in (NM_ID, WM_ID):
                f = 1
            add('call %d %d %d %d' % (m, f, rnd.choice(P.args), rnd.choice(P.args)))
        elif k == 'release':
            named = [s for s in sorted(L.slots) if ('e', s) not in L.scopes]
            if named:
                s = rnd.choice(named); del L.slots[s]; add('release %d' % s)
        elif k == 'dmock':
            if L.mocks:
                m = rnd.choice(sorted(L.mocks)); L.mocks.discard(m); add('dmock %d' % m)
        elif k == 'mmock':
            free = [m for m in range(P.nmock) if m not in L.mocks]
            movable = [m for m in sorted(L.mocks) if m not in (NM_ID, WM_ID)]
            if movable and free:
                m = rnd.choice(movable); m2 = rnd.choice(free); L.mocks.add(m2); add('mmock %d %d' % (m, m2))
        elif k == 'dseq':
            if L.seqs:
                q = rnd.choice(sorted(L.seqs)); L.seqs.discard(q); add('dseq %d' % q)
        elif k == 'obj':
            free = [o for o in range(1, NOBJ + 1) if o not in L.objs]
            if free:
                o = rnd.choice(free); L.objs.add(o); add('obj %d' % o)
        elif k == 'watch':
            free = [x for x in range(1, NMON + 1) if x not in L.mons]
            objs = sorted(L.objs) if P.multi_mon else [o for o in sorted(L.objs) if o not in L.mons.values()]
            if WM_ID in L.mocks and (P.multi_mon or WM_ID not in L.mons.values()):
                objs = objs + [WM_ID]          # a requirement on the watched mock
            if free and objs:
                kk = rnd.choice(free); o = rnd.choice(objs)
                nq = rnd.choice([0, 1, 2]) if L.seqs else 0
                nq = min(nq, len(L.seqs))
                q = rnd.sample(sorted(L.seqs), nq) + [0, 0]
                L.mons[kk] = o
                add('watch %d %d %d %d %d' % (kk, o, nq, q[0], q[1]))
        elif k == 'unwatch':
            named = [x for x in sorted(L.mons) if ('m', x) not in L.scopes]
            if named:
                kk = rnd.choice(named); del L.mons[kk]; add('unwatch %d' % kk)
        elif k == 'dobj':
            if L.objs:
                o = rnd.choice(sorted(L.objs)); L.objs.discard(o); add('dobj %d' % o)
        elif k in ('cpobj', 'cpobjn', 'mvobj'):
            free = [o for o in range(1, NOBJ + 1) if o not in L.objs]
            if L.objs and free:
                o = rnd.choice(sorted(L.objs)); o2 = rnd.choice(free); L.objs.add(o2); add('%s %d %d' % (k, o, o2))
        elif k in ('asobj', 'masobj'):
            if len(L.objs) >= 2:
                o, o2 = rnd.sample(sorted(L.objs), 2); add('%s %d %d' % (k, o, o2))
        elif k == 'tracer':
            free = [t for t in range(1, NTR + 1) if t not in L.trs]
            if free:
                t = rnd.choice(free); L.trs.append(t); add('tracer %d %d' % (t, rnd.choice(P.tracer_kinds)))
        elif k == 'dtracer':          # LIFO destruction
            if L.trs:
                t = L.trs.pop(); add('dtracer %d' % t)
        elif k == 'dtracer_any':      # any order
            if L.trs:
                t = rnd.choice(L.trs); L.trs.remove(t); add('dtracer %d' % t)
        elif k == 'setrep':
            add('setrep %d %d' % (rnd.choice([1, 2]), rnd.choice([0, 1])))
        else:
            raise ValueError(k)

SIMPLE = [1, 2, 3, 9, 10, 12, 13, 126, 127, 130, 131, 132, 135, 137, 138, 140, 141, 142, 143, 22, 23, 24, 30, 32, 33, 40, 42, 43, 50, 52, 53, 60, 61, 62, 63, 64, 65, 66, 67, 68, 120, 122, 123]
SEQSH = [5, 6, 7, 8, 11, 25, 26, 27, 34, 44, 54, 56, 69, 121, 124, 125, 133, 139, 145, 146]

PROFILES = {
    'lifecycle': Profile('lifecycle', SIMPLE,
                         dict(mock=3, expect=8, call=10, call_live=10, release=4, dmock=1.5, mmock=1.5, scope=2.5, endscope=2.5), nmock=3,
                         prelude=('mock',)),
    'overlap': Profile('overlap', [2, 3, 5, 6, 7, 9, 10, 11, 26, 27, 30, 40, 50, 130, 131, 135, 137],
                       dict(mock=1, seq=2, expect=10, call=6, call_live=16, release=2, mmock=0.5), nmock=2, nseq=2,
                       args=(0, 1), terms=[(0, 0), (1, 0), (1, 1), (2, 0)], prelude=('mock', 'seq', 'seq'),
                       bounds=((1, 1), (0, 1), (1, 2), (2, 2), (0, INF), (1, INF), (2, 3))),
    'bounds': Profile('bounds', [2, 3, 17, 18, 19, 20, 9, 12, 14, 23, 1, 50, 120, 122, 123, 120],
                      dict(mock=0.5, expect=6, call=4, call_live=20, release=2), nmock=1, bounds=tuple(BOUNDS_ALL),
                      args=(0, 1), terms=[(0, 0), (1, 0), (1, 1)], prelude=('mock',), seglen=(10, 36)),
    'teardown': Profile('teardown', [2, 3, 5, 30, 40, 50, 9, 12, 17, 19, 120, 121],
                        dict(mock=2, seq=0.5, expect=8, call=3, call_live=6, release=6, dmock=4, mmock=3, scope=3, endscope=3), nmock=3, nseq=1,
                        prelude=('mock', 'seq')),
    'sequences': Profile('sequences', SEQSH + [2, 9],
                         dict(mock=0.5, seq=2, expect=10, call_live=18, call=2, release=3, dseq=0.6, obj=1.5, watch=2.5,
                              dobj=2, unwatch=0.7, scope=1.5, mscope=1, endscope=2.5), nmock=2, nseq=3, args=(0, 1), terms=[(0, 0), (0, 0), (1, 0), (1, 1)],
                         prelude=('mock', 'seq', 'seq'), multi_mon=False, seglen=(10, 34),
                         bounds=((1, 1), (0, 1), (1, 2), (2, 2), (0, INF), (1, INF), (2, 3))),
    'forbid': Profile('forbid', [12, 13, 14, 2, 9, 10, 1, 3, 33, 43, 53, 30, 40, 50, 23, 62, 63, 68, 65, 67, 64, 126, 126, 127, 132, 138, 131, 137],
                      dict(mock=1, expect=8, call=6, call_live=14, release=4, dmock=0.7, scope=3, endscope=3), nmock=2,
                      bounds=((0, 0), (0, 0), (1, 1), (0, INF), (1, 2)), prelude=('mock',)),
    'clauses': Profile('clauses', [4, 8, 16, 21, 25, 31, 41, 51, 15, 55, 3, 10, 13, 90, 91, 92, 134, 136, 140, 141, 147, 148],
                       dict(mock=0.5, seq=1, expect=8, call_live=14, call=3, release=2), nmock=1, nseq=2,
                       se_beh=(0, 0, 0, 0, 1, 2, 3, 3), prelude=('mock', 'seq', 'seq'),
                       bounds=((1, 1), (0, INF), (1, 3), (2, 2))),
    'deathwatch': Profile('deathwatch', [5, 2],
                          dict(obj=6, watch=7, unwatch=4, dobj=6, cpobj=2, cpobjn=1.5, mvobj=2, asobj=2, masobj=2, seq=1, mock=0.3,
                               expect=1, call_live=1, mscope=3, endscope=3), nmock=1, nseq=2, multi_mon=True, seglen=(6, 24), prelude=('obj',)),
    'teardown_all': Profile('teardown_all', SIMPLE + SEQSH,
                            dict(mock=2, seq=2, expect=8, call=2, call_live=6, release=4, dmock=3, mmock=3, dseq=3, obj=2,
                                 watch=3, unwatch=2, dobj=2, cpobj=0.5, mvobj=0.5, asobj=0.5, masobj=0.5, tracer=2,
                                 dtracer_any=2), nmock=3, nseq=3, prelude=('mock', 'seq')),
    'reporters': Profile('reporters', [2, 3, 5, 9, 10, 12, 13, 30, 33, 50, 53, 11, 130, 132, 135, 138, 55, 15, 16, 134, 144, 142],
                         dict(mock=0.5, seq=0.5, expect=8, call=5, call_live=14, release=3, setrep=5, dmock=0.5, obj=0.7,
                              dobj=0.7), nmock=2, nseq=1, prelude=('mock', 'seq')),
    'trace': Profile('trace', [1, 2, 4, 15, 16, 50, 51, 55, 30, 40, 12, 9, 90, 91, 92, 130, 135, 134, 142, 143, 144, 142],
                     dict(mock=0.5, expect=8, call=3, call_live=14, release=2, tracer=6, dtracer=2.5, dtracer_any=2.5), nmock=1,
                     se_beh=(0, 0, 0, 1, 2, 3), prelude=('mock',), bounds=((1, 1), (0, INF), (1, 3))),
}

def gen(profile, nseg, seed, prefix=None):
    rnd = random.Random(seed)
    P = PROFILES[profile]
    out = []
    for i in range(nseg):
        out.append(('%s-%d-%d' % (prefix or profile, seed, i), P.gen_segment(rnd)))
    return out

def write_script(path, segs):
    with open(path, 'w') as f:
        for sid, ops in segs:
            f.write('seg %s\n' % sid)
            for o in ops:
                f.write(o + '\n')

if __name__ == '__main__':
    segs = gen(sys.argv[1], int(sys.argv[2]), int(sys.argv[3]))
    write_script(sys.argv[4], segs)

# ---------------------------------------------------------------- C20: coroutine scripts

def gen_coro_segments(nseg, seed, skip=(), prefix='coro'):
    rnd = random.Random(seed)
    out = []
    # positional names _1.._15 inside CO_RETURN / CO_THROW / CO_YIELD / LR_CO_RETURN of a 15-parameter coroutine (clause evaluated during the call)
    for n in range(max(4, nseg // 60)):
        ops = []
        for k in (1, 2, 3, 4):
            vals = rnd.sample(range(1, 60), 15)          # pairwise different
            ops.append('cargs %d %s' % (k, ' '.join(map(str, vals))))
        out.append(('%s-args-%d-%d' % (prefix, seed, n), ops))
    bounds = [(1, 1), (0, INF), (1, 3), (2, 2), (0, 2), (1, INF)]
    for n in range(nseg):
        ops = []
        exps = {}          # slot -> kind
        insts = {}         # inst -> set of candidate slots (alive on that function at call time)
        L = rnd.randint(6, 26)
        tries = 0
        while len(ops) < L and tries < 400:
            tries += 1
            k = rnd.choices(['cexpect', 'ccall', 'resume', 'idestroy', 'crelease'], [5, 6, 14, 2, 2])[0]
            if k == 'cexpect':
                free = [s for s in (1, 2, 3) if s not in exps]
                if not free:
                    continue
                s = rnd.choice(free)
                kind = rnd.choice([1, 1, 2, 2, 3, 3, 4, 5])
                ny = rnd.randint(0, 3) if kind <= 3 else 0
                retks = [r for r in ((1, 2, 3) if kind in (1, 2) else (1, 2)) if (kind, r) not in skip]
                retk = rnd.choice(retks)
                ys = [rnd.randint(1, 9) + 10 * j for j in (1, 2, 3)]
                ythrow = rnd.randint(1, ny) if ny and rnd.random() < 0.15 else 0
                lo, hi = rnd.choice(bounds)
                ords = [0] + ([1] if ny >= 1 and retk in (1, 2) else []) + ([2] if ny >= 2 and retk in (1, 2) else [])
                ops.append('cexpect %d %d %d %d %d %d %d %d %d %d %d %d' % (s, kind, ny, retk, ys[0], ys[1], ys[2], ythrow, 100 * s + rnd.randint(0, 9), lo, hi, rnd.choice(ords)))
                exps[s] = kind
            elif k == 'ccall':
                free = [i for i in (1, 2, 3, 4) if i not in insts]
                if not free:
                    continue
                i = rnd.choice(free)
                kinds = sorted(set(exps.values())) or [1]
                kind = rnd.choice(kinds) if rnd.random() < 0.9 else rnd.randint(1, 5)
                ops.append('ccall %d %d' % (i, kind))
                insts[i] = {s for s, kk in exps.items() if kk == kind}
                if not insts[i]:
                    del insts[i]          # rejected call: no instance
            elif k == 'resume':
                if insts:
                    ops.append('resume %d' % rnd.choice(sorted(insts)))
            elif k == 'idestroy':
                if insts:
                    i = rnd.choice(sorted(insts)); del insts[i]; ops.append('idestroy %d' % i)
            elif k == 'crelease':
                # proviso of C20: an expectation outlives the coroutines evaluating its clauses
                cands = [s for s in exps if not any(s in c for c in insts.values())]
                if cands:
                    s = rnd.choice(cands); del exps[s]; ops.append('crelease %d' % s)
        out.append(('%s-%d-%d' % (prefix, seed, n), ops))
    return out

# ---------------------------------------------------------------- C12: concurrent scripts

CONC_SHAPES = [2, 3, 5, 6, 9, 11, 26, 27, 50, 54, 12]

def gen_conc_segments(nseg, seed, nthreads=(2, 4), oplen=(3, 14), prefix='conc'):
    """prelude (main thread): shared mock 0, one own mock per thread, shared sequences 1..2, one watched object per thread.
    Each thread owns two expectation slots, one monitor and one object (caller obligation: nobody else
    destroys or queries them); calls go to the shared mock and to the thread's own mock."""
    rnd = random.Random(seed)
    out = []
    bounds = [(1, 1), (0, 1), (1, 2), (2, 2), (0, INF), (1, INF), (2, 3)]
    for n in range(nseg):
        TT = rnd.choice([2, 2, 3, 3, 3, 4, 5, 6, 8]) if nthreads == (2, 4) else rnd.randint(*nthreads)
        T = min(TT, 3)                      # 3 owner threads x 2 slots = 6 slots, 3 objects, 3 monitors
        callers = TT - T                    # further threads own nothing: they call the shared mock and query the shared sequences
        lines = ['pre mock 0', 'pre seq 1', 'pre seq 2']
        if rnd.random() < 0.3:
            lines.append('pre tracer 1 1')       # installed before the threads start: calls on every thread are traced to it
        for t in range(T):
            if t + 1 < NM_ID:
                lines.append('pre mock %d' % (t + 1))
            lines.append('pre obj %d' % (t + 1))
        # a requirement created by the main thread on thread 1's object and released by thread 0:
        # release of a monitor and destruction of its object are issued from different threads
        cross = T >= 2 and rnd.random() < 0.6
        if cross:
            nqx = rnd.choice([0, 0, 1])
            lines.append('pre watch 4 2 %d %d 0' % (nqx, rnd.choice([1, 2]) if nqx else 0))
        focused = cross and rnd.random() < 0.5      # short programs that start with the two racing operations
        shared_obj = (T == 2 and not cross and rnd.random() < 0.7)      # object 3 belongs to nobody: requirements on it come from both threads
        if shared_obj:
            lines.append('pre obj 3')
        # an expectation placed (by the main thread) on thread u's own mock but owned by thread v: v releases / queries it
        # while u may be destroying the mock (destruction of a mock vs. release of one of its expectations, from two threads)
        xown = {}
        if T >= 2 and rnd.random() < 0.6:
            u = rnd.choice([x for x in range(T) if x + 1 < NM_ID])
            v = rnd.choice([x for x in range(T) if x != u])
            sx = 2 * v + rnd.choice([1, 2])
            shx = rnd.choice(CONC_SHAPES)
            dx = DERIVED[shx]
            lo, hi = rnd.choice(bounds)
            if shx == 12:
                lo, hi = 0, 0
            qx = rnd.sample([1, 2], dx['nq']) + [0, 0]
            lines.append('pre ' + expect_line(sx, shx, u + 1, ((0, 0), (0, 0)), ((0, 0), (0, 0), (0, 0)), (0, 0, 0), 100 * sx, lo, hi, (qx[0], qx[1])))
            xown = dict(u=u, v=v, s=sx, sh=shx, early=rnd.random() < 0.5, s2=0)
            if rnd.random() < 0.5:
                # a second one on another mock function (v(int), destroyed before f(int)'s lists): released first by thread v
                s2 = 2 * v + (2 if sx == 2 * v + 1 else 1)
                lo2, hi2 = rnd.choice(bounds)
                lines.append('pre ' + expect_line(s2, 50, u + 1, ((0, 0), (0, 0)), ((0, 0), (0, 0), (0, 0)), (0, 0, 0), 100 * s2, lo2, hi2, (0, 0)))
                xown['s2'] = s2
        for t in range(T):
            own_slots = [2 * t + 1, 2 * t + 2]
            own_mock = t + 1 if t + 1 < NM_ID else 0
            own_mock_alive = own_mock != 0
            live = {}
            if xown and xown['v'] == t:
                live[xown['s']] = xown['sh']
                if xown['s2']:
                    live[xown['s2']] = 50
                    if xown['early'] or rnd.random() < 0.5:
                        lines.append('thr %d release %d' % (t, xown['s2'])); del live[xown['s2']]
                if xown['early']:
                    lines.append('thr %d %s %d' % (t, rnd.choice(['release', 'query', 'release']), xown['s']))
                    if lines[-1].split()[2] == 'release':
                        del live[xown['s']]
            if xown and xown['u'] == t and xown['early']:
                if rnd.random() < 0.5:
                    lines.append('thr %d call %d 1 %d 0' % (t, own_mock, rnd.choice([0, 1])))
                lines.append('thr %d dmock %d' % (t, own_mock)); own_mock_alive = False
            mon_alive = False
            obj_alive = True
            k = t + 1
            L = rnd.randint(*oplen)
            cnt = 0
            cross_pending = cross and t == 0
            if focused:
                L = rnd.randint(0, 3)
                if t == 0:
                    if rnd.random() < 0.5:
                        lines.append('thr 0 mqueryx 4'); lines.append('thr 0 mqueryx 4')
                    lines.append('thr 0 unwatch 4'); cross_pending = False
                elif t == 1:
                    lines.append('thr 1 dobj 2'); obj_alive = False
            while cnt < L:
                if cross_pending and rnd.random() < 0.15:
                    lines.append('thr 0 unwatch 4'); cross_pending = False; cnt += 1
                    continue
                if cross_pending and rnd.random() < 0.2:
                    lines.append('thr 0 mqueryx 4'); cnt += 1      # query a requirement whose object another thread may be destroying
                    continue
                kind = rnd.choices(['expect', 'call', 'release', 'query', 'iscompleted', 'watch', 'dobj', 'unwatch', 'mquery', 'dmock'],
                                   [6, 12, 3, 3, 3, 1.5, 1.2, 0.8, 1, 0.3])[0]
                if kind == 'expect':
                    free = [s for s in own_slots if s not in live]
                    if not free:
                        continue
                    s = rnd.choice(free)
                    sh = rnd.choice(CONC_SHAPES)
                    d = DERIVED[sh]
                    mocks = [0] + ([own_mock] if own_mock_alive else [])
                    m = rnd.choice(mocks)
                    lo, hi = rnd.choice(bounds)
                    if sh == 12:
                        lo, hi = 0, 0
                    q = rnd.sample([1, 2], d['nq']) + [0, 0]
                    p = (rnd.choice([(0, 0), (1, 0), (1, 1)]), (0, 0))
                    w = ((rnd.choice([(0, 0), (1, 0), (2, 0)]) if d['nw'] else (0, 0)), (0, 0), (0, 0))
                    lines.append('thr %d %s' % (t, expect_line(s, sh, m, p, w, (0, 0, 0), 100 * s + rnd.randint(0, 9), lo, hi, (q[0], q[1]))))
                    live[s] = sh
                elif kind == 'call':
                    mocks = [0, 0] + ([own_mock] if own_mock_alive else [])
                    lines.append('thr %d call %d %d %d 0' % (t, rnd.choice(mocks), rnd.choice([1, 1, 1, 4]), rnd.choice([0, 1])))
                elif kind == 'release':
                    if not live:
                        continue
                    s = rnd.choice(sorted(live)); del live[s]; lines.append('thr %d release %d' % (t, s))
                elif kind == 'query':
                    if not live:
                        continue
                    lines.append('thr %d query %d' % (t, rnd.choice(sorted(live))))
                elif kind == 'iscompleted':
                    lines.append('thr %d iscompleted %d' % (t, rnd.choice([1, 2])))
                elif kind == 'watch':
                    if mon_alive:
                        continue
                    nq = rnd.choice([0, 1, 1, 2])
                    q = rnd.sample([1, 2], nq) + [0, 0]
                    if shared_obj and rnd.random() < 0.5:
                        # a requirement on the SHARED object 3: several threads create / release requirements on one object
                        # (it is destroyed by the main thread after the join, if at all)
                        lines.append('thr %d watch %d 3 %d %d %d' % (t, k, nq, q[0], q[1])); mon_alive = True
                        continue
                    if not obj_alive:
                        continue
                    lines.append('thr %d watch %d %d %d %d %d' % (t, k, k, nq, q[0], q[1])); mon_alive = True
                elif kind == 'dobj':
                    if not obj_alive:
                        continue
                    lines.append('thr %d dobj %d' % (t, k)); obj_alive = False
                elif kind == 'unwatch':
                    if not mon_alive:
                        continue
                    lines.append('thr %d unwatch %d' % (t, k)); mon_alive = False
                elif kind == 'mquery':
                    if not mon_alive:
                        continue
                    lines.append('thr %d mquery %d' % (t, k))
                elif kind == 'dmock':
                    if not own_mock_alive:
                        continue
                    lines.append('thr %d dmock %d' % (t, own_mock)); own_mock_alive = False
                cnt += 1
        if shared_obj and rnd.random() < 0.6:
            lines.append('post dobj 3')
        for c in range(callers):
            for _ in range(rnd.randint(2, 8)):
                if rnd.random() < 0.8:
                    lines.append('thr %d call 0 %d %d 0' % (T + c, rnd.choice([1, 1, 1, 4]), rnd.choice([0, 1])))
                else:
                    lines.append('thr %d iscompleted %d' % (T + c, rnd.choice([1, 2])))
        out.append(('%s-%d-%d' % (prefix, seed, n), lines))
    return out

# ---------------------------------------------------------------- exhaustive enumerations of small sub-spaces

def exhaustive_bounds():
    """C03: every bound pair 0 <= L <= H <= 3 and H = infinity, n = 0 .. H+2 matching calls (flags after each),
    alone / with an older ALLOW fallback / with a newer REQUIRE(1,1) on top; plus every inverted RT_TIMES pair, with and without a sequence"""
    segs = []
    hs = [0, 1, 2, 3, INF]
    for L in range(0, 4):
        for H in hs:
            if L > H:
                continue
            ncalls = (H if H != INF else L) + 2
            for ctx in ('alone', 'fallback', 'ontop'):
                ops = ['mock 0']
                if ctx == 'fallback':
                    ops.append(expect_line(2, 9, 0, retv=200))                       # older ALLOW_CALL takes the overflow
                # the bounds through every form of RT_TIMES that can express them
                form = 2
                if ctx == 'alone':
                    form = 120 if (L == H and H != INF) else 122 if H == INF else 123 if L == 0 else 2
                ops.append(expect_line(1, form, 0, retv=100, lo=L, hi=H))
                if ctx == 'ontop':
                    ops.append(expect_line(3, 2, 0, retv=300, lo=1, hi=1))           # newer REQUIRE takes the first call
                ops += ['call 0 1 0 0'] * (ncalls + (1 if ctx == 'ontop' else 0))
                ops += ['release 1']
                segs.append(('xb-%d-%d-%s' % (L, H, ctx), ops))
    for L in range(1, 4):
        for H in range(0, L):
            segs.append(('xb-bad-%d-%d' % (L, H), ['mock 0', expect_line(1, 2, 0, lo=L, hi=H), 'call 0 1 0 0']))
            segs.append(('xb-badseq-%d-%d' % (L, H), ['mock 0', 'seq 1', expect_line(1, 5, 0, lo=L, hi=H, q=(1, 0)),
                                                       expect_line(2, 5, 0, lo=1, hi=1, q=(1, 0)), 'call 0 1 0 0', 'dseq 1']))
    return segs

def exhaustive_teardown():
    """C04: one expectation (5 bound pairs x 0..2 handled calls) and every permutation of every non-empty subset of
    {release it, destroy its mock, move its mock, a call matching nothing (lists it in the report)}"""
    segs = []
    bounds = [(1, 1), (0, 1), (2, 2), (1, INF), (0, 0)]
    # how the non-matching call is rejected, on which kind of function: (tag, shape, parameter term, WITH term, matching call, non-matching call, max handled)
    variants = [('fp', 3, (1, 0), (0, 0), '1 0 0', '1 9 0', 2),        # f(int): a parameter rejects
                ('fw', 3, (0, 0), (1, 0), '1 0 0', '1 9 0', 2),        # f(int): the parameters fit, the WITH clause rejects
                ('zw', 140, (0, 0), (1, 5), '5 0 0', '5 0 0', 0),      # z(): no parameter at all, the WITH clause (on the constant 0) rejects every call
                ('hp', 135, (1, 0), (0, 0), '6 0 0', '6 9 0', 2)]      # h(int,int,int): the first of three parameters rejects
    for (tag, vsh, vp, vw, mcall, ncall, maxn) in variants:
      for (lo, hi) in bounds:
        for n in range(0, 3):
            if (hi != INF and n > hi) or n > maxn or (tag != 'fp' and (lo, hi) not in ((1, 1), (2, 2), (0, 1))):
                continue
            for r in range(1, 5):
                for subset in itertools.combinations('RDMN', r):
                    for perm in itertools.permutations(subset):
                        ops = ['mock 0', expect_line(1, vsh, 0, p=(vp, (0, 0)), w=(vw, (0, 0), (0, 0)), retv=100, lo=lo, hi=hi)]
                        ops += ['call 0 %s' % mcall] * n
                        mock, released, alive = 0, False, True
                        for o in perm:
                            if o == 'R':
                                if not released:
                                    ops.append('release 1'); released = True
                            elif o == 'D':
                                if alive:
                                    ops.append('dmock %d' % mock); alive = False
                            elif o == 'M':
                                if alive and mock == 0:
                                    ops.append('mmock 0 1'); mock = 1
                            elif o == 'N':
                                if alive:
                                    ops.append('call %d %s' % (mock, ncall))
                        if not released:
                            ops.append('release 1')
                        segs.append(('xt-%s-%d-%d-%d-%s' % (tag, lo, hi, n, ''.join(perm)), ops))
    return segs

def exhaustive_sequences():
    """C05/C06: two entries A (f(0)) and B (f(1)) registered in this order in one sequence, every pair of bounds from a
    7-element set, every call string over {a, b} up to length 4 (is_completed and flags after each step), then tear-down;
    and the same with B replaced by a sequenced REQUIRE_DESTRUCTION whose object dies at every position of the call string"""
    segs = []
    bset = [(1, 1), (0, 1), (1, 2), (2, 2), (0, INF), (1, INF), (2, 3)]
    strings = [''.join(s) for n in range(1, 5) for s in itertools.product('ab', repeat=n)]
    for (la, ha) in bset:
        for (lb, hb) in bset:
            for cs in strings:
                ops = ['mock 0', 'seq 1',
                       expect_line(1, 5, 0, p=((1, 0), (0, 0)), retv=100, lo=la, hi=ha, q=(1, 0)),
                       expect_line(2, 5, 0, p=((1, 1), (0, 0)), retv=200, lo=lb, hi=hb, q=(1, 0))]
                ops += ['call 0 1 %d 0' % (0 if c == 'a' else 1) for c in cs]
                ops += ['release 1', 'dseq 1']
                segs.append(('xs-%d.%d-%d.%d-%s' % (la, ha, lb, hb, cs), ops))
    for (la, ha) in bset:
        for cs in [''.join(s) for n in range(0, 4) for s in itertools.product('a', repeat=n)]:
            for pos in range(0, len(cs) + 1):
                ops = ['mock 0', 'seq 1', 'obj 1',
                       expect_line(1, 5, 0, p=((1, 0), (0, 0)), retv=100, lo=la, hi=ha, q=(1, 0)),
                       'watch 1 1 1 1 0']
                calls = ['call 0 1 0 0' for _ in cs]
                ops += calls[:pos] + ['dobj 1'] + calls[pos:]
                ops += ['unwatch 1', 'release 1', 'dseq 1']
                segs.append(('xsm-%d.%d-%s-%d' % (la, ha, cs or 'none', pos), ops))
    return segs

def exhaustive_seqmonitors():
    """C05/C06/C13/C15: ONE sequence with 2..3 entries, each either an expectation on f(i) (bounds (1,1), (0,1) or (1,2)) or a
    REQUIRE_DESTRUCTION on object i, registered in index order; every order of the entries' primary events (call f(i) / destroy object i),
    optionally with one repeated call, with an unsequenced ALLOW_CALL fallback present or not; then everything is released and the sequence destroyed"""
    segs = []
    bopts = [(1, 1), (0, 1), (1, 2)]
    for n in (2, 3):
        for kinds in itertools.product('em', repeat=n):
            nexp = sum(1 for k in kinds if k == 'e')
            for bnds in itertools.product(bopts, repeat=nexp):
                for perm in itertools.permutations(range(n)):
                    for extra in ((None,) + tuple(i for i in range(n) if kinds[i] == 'e') if n == 2 else (None,)):
                        for fb in ((0, 1) if n == 2 else (0,)):
                            ops = ['mock 0', 'seq 1']
                            if fb:
                                ops.append(expect_line(6, 9, 0, retv=600))        # older unsequenced ALLOW_CALL f(_)
                            bi = 0
                            for i, k in enumerate(kinds):
                                if k == 'e':
                                    lo, hi = bnds[bi]; bi += 1
                                    ops.append(expect_line(i + 1, 5, 0, p=((1, i), (0, 0)), retv=100 * (i + 1), lo=lo, hi=hi, q=(1, 0)))
                                else:
                                    ops += ['obj %d' % (i + 1), 'watch %d %d 1 1 0' % (i + 1, i + 1)]
                            evs = list(perm)
                            if extra is not None:
                                evs = evs + [extra]
                            for i in evs:
                                ops.append('call 0 1 %d 0' % i if kinds[i] == 'e' else 'dobj %d' % (i + 1))
                            for i, k in enumerate(kinds):
                                ops.append('release %d' % (i + 1) if k == 'e' else 'unwatch %d' % (i + 1))
                            ops.append('dseq 1')
                            segs.append(('xq-%s-%s-%s-%s-%d' % (''.join(kinds), '.'.join('%d%d' % b for b in bnds) or 'x', ''.join(map(str, perm)),
                                                                'n' if extra is None else str(extra), fb), ops))
    return segs

def exhaustive_seqdeath():
    """C06/C05/C14: an entry E (f(1)) IN_SEQUENCE of two sequence objects (both listing orders), optionally behind a predecessor P (f(0))
    in one of them; every order of {destroy sequence 1, destroy sequence 2, call E (twice), call P}: entries outlive sequence objects,
    saturate after one of their sequences died, and the surviving sequence's tear-down must list exactly what is still pending"""
    segs = []
    for (qa, qb) in ((1, 2), (2, 1)):
        for pq in (0, 1, 2):
            for (lo, hi) in ((1, 1), (1, 2)):
                base = ['d1', 'd2', 'e', 'e'] + (['p'] if pq else [])
                for perm in sorted(set(itertools.permutations(base))):
                    ops = ['mock 0', 'seq 1', 'seq 2']
                    if pq:
                        ops.append(expect_line(1, 5, 0, p=((1, 0), (0, 0)), retv=100, lo=1, hi=1, q=(pq, 0)))
                    ops.append(expect_line(2, 7, 0, p=((1, 1), (0, 0)), retv=200, lo=lo, hi=hi, q=(qa, qb)))
                    for ev in perm:
                        ops.append({'d1': 'dseq 1', 'd2': 'dseq 2', 'e': 'call 0 1 1 0', 'p': 'call 0 1 0 0'}[ev])
                    ops += ['release 2'] + (['release 1'] if pq else [])
                    segs.append(('xd-%d%d-p%d-%d%d-%s' % (qa, qb, pq, lo, hi, ''.join(x[0] if x[0] != 'd' else x[1] for x in perm)), ops))
    # the same with an entry IN_SEQUENCE of all THREE sequence objects (three listing orders): every order of the three deaths and two calls
    for (qa, qb) in ((1, 2), (2, 3), (3, 1)):
        for (lo, hi) in ((1, 1), (1, 2)):
            for perm in sorted(set(itertools.permutations(['d1', 'd2', 'd3', 'e', 'e']))):
                ops = ['mock 0', 'seq 1', 'seq 2', 'seq 3', expect_line(2, 145, 0, p=((1, 1), (0, 0)), retv=200, lo=lo, hi=hi, q=(qa, qb))]
                for ev in perm:
                    ops.append({'d1': 'dseq 1', 'd2': 'dseq 2', 'd3': 'dseq 3', 'e': 'call 0 1 1 0'}[ev])
                ops += ['release 2']
                segs.append(('xd3-%d%d-%d%d-%s' % (qa, qb, lo, hi, ''.join(x[0] if x[0] != 'd' else x[1] for x in perm)), ops))
    return segs

EXHAUSTIVE = {'C03': [exhaustive_bounds], 'C04': [exhaustive_teardown], 'C05': [exhaustive_sequences, exhaustive_seqmonitors, exhaustive_seqdeath],
              'C06': [exhaustive_sequences, exhaustive_seqmonitors, exhaustive_seqdeath]}

def exhaustive_selection():
    """C02: (A) ties - two sequences, 1..2 optional predecessors in each, one candidate per sequence matching the same call
    (equal non-zero cost), both creation orders, with / without an older unsequenced candidate, 3 matching calls and a
    predecessor call; (B) an entry IN_SEQUENCE of two sequences (both listing orders) with an optional predecessor in one
    of them (on another argument) and an unsequenced competitor for one of its arguments, every creation order, three bound pairs, every call string over three argument values up to length 3"""
    segs = []
    # ---- A
    for k1 in (1, 2):
        for k2 in (1, 2):
            for order in ('c1c2', 'c2c1'):
                for (lo, hi) in ((1, 1), (1, 2), (2, 3)):
                    for older in (False, True):
                        ops = ['mock 0', 'seq 1', 'seq 2']
                        slot = 1
                        if older:
                            ops.append(expect_line(6, 9, 0, p=((1, 1), (0, 0)), retv=600)); 
                        preds = []
                        for i in range(k1):
                            ops.append(expect_line(slot, 11, 0, p=((1, 0), (0, 0)), retv=100 * slot, q=(1, 0))); slot += 1
                        for i in range(k2):
                            if slot <= 3:
                                ops.append(expect_line(slot, 11, 0, p=((1, 0), (0, 0)), retv=100 * slot, q=(2, 0))); slot += 1
                        c = {'c1': expect_line(4, 5, 0, p=((1, 1), (0, 0)), retv=400, lo=lo, hi=hi, q=(1, 0)),
                             'c2': expect_line(5, 5, 0, p=((1, 1), (0, 0)), retv=500, lo=lo, hi=hi, q=(2, 0))}
                        ops += [c[order[:2]], c[order[2:]]]
                        ops += ['call 0 1 1 0', 'call 0 1 1 0', 'call 0 1 0 0', 'call 0 1 1 0', 'call 0 1 1 0']
                        segs.append(('xsel-A-%d%d-%s-%d.%d-%d' % (k1, k2, order, lo, hi, int(older)), ops))
    # ---- B: p = optional predecessor on f(0) in sequence 2; e = entry of both sequences accepting f(1) and f(2);
    #         u = unsequenced competitor accepting f(2) only
    strings = [''.join(s) for n in range(1, 4) for s in itertools.product('abc', repeat=n)]
    argof = {'a': 1, 'b': 0, 'c': 2}
    for listing in ((1, 2), (2, 1)):
        for (lo, hi) in ((1, 1), (2, 2), (1, 3)):
            for perm in itertools.permutations('peu'):
                for cs in strings:
                    ops = ['mock 0', 'seq 1', 'seq 2']
                    mk = {'p': expect_line(1, 11, 0, p=((1, 0), (0, 0)), retv=100, q=(2, 0)),
                          'e': expect_line(2, 7, 0, p=((2, 0), (0, 0)), retv=200, lo=lo, hi=hi, q=listing),
                          'u': expect_line(3, 9, 0, p=((1, 2), (0, 0)), retv=300)}
                    ops += [mk[x] for x in perm]
                    ops += ['call 0 1 %d 0' % argof[ch] for ch in cs]
                    segs.append(('xsel-B-%d%d-%d.%d-%s-%s' % (listing[0], listing[1], lo, hi, ''.join(perm), cs), ops))
    # ---- C: an entry of two sequences whose two per-sequence costs are both non-zero and DIFFER (blocked / 2 / 1 in the
    #         first-listed one, 1 in the second-listed one and the other way round): r = predecessor(s) in sequence 1 on f(0)
    #         (one required, one optional, two optional), p = one optional predecessor in sequence 2 on f(0), optionally a
    #         rival c in sequence 3 behind one optional step (cost 1, accepts f(1)), u = unsequenced competitor for f(2)
    for kind1 in ('req', 'opt1', 'opt2'):
        for listing in ((1, 2), (2, 1)):
            for rival in (False, True):
                if rival and kind1 == 'opt2':
                    continue            # six slots
                for ulate in (False, True):
                    for cs in strings:
                        ops = ['mock 0', 'seq 1', 'seq 2'] + (['seq 3'] if rival else [])
                        slot = 1
                        if kind1 == 'req':
                            ops.append(expect_line(slot, 5, 0, p=((1, 0), (0, 0)), retv=100 * slot, lo=1, hi=1, q=(1, 0))); slot += 1
                        else:
                            for i in range(1 if kind1 == 'opt1' else 2):
                                ops.append(expect_line(slot, 11, 0, p=((1, 0), (0, 0)), retv=100 * slot, q=(1, 0))); slot += 1
                        ops.append(expect_line(slot, 11, 0, p=((1, 0), (0, 0)), retv=100 * slot, q=(2, 0))); slot += 1
                        if rival:
                            ops.append(expect_line(slot, 11, 0, p=((1, 0), (0, 0)), retv=100 * slot, q=(3, 0))); slot += 1
                            ops.append(expect_line(slot, 5, 0, p=((1, 1), (0, 0)), retv=100 * slot, lo=1, hi=2, q=(3, 0))); slot += 1
                        u = expect_line(6, 9, 0, p=((1, 2), (0, 0)), retv=600)
                        e = expect_line(slot, 7, 0, p=((2, 0), (0, 0)), retv=100 * slot, lo=1, hi=2, q=listing)
                        ops += [e, u] if ulate else [u, e]
                        ops += ['call 0 1 %d 0' % argof[ch] for ch in cs]
                        segs.append(('xsel-C-%s-%d%d-%d%d-%s' % (kind1, listing[0], listing[1], int(rival), int(ulate), cs), ops))
    return segs

EXHAUSTIVE['C02'] = [exhaustive_selection]
EXHAUSTIVE['C01'] = [exhaustive_selection]

def exhaustive_forbid():
    """C07: every forbidding form (FORBID_CALL, with WITH, TIMES(0), RT_TIMES(0,0), the _V and scoped forms, on int / void / string / two-parameter
    functions) alone, over an older ALLOW_CALL and under a newer REQUIRE_CALL, every call string over {matching, not matching} up to length 3
    (a forbidden call reports every time), then end of life"""
    segs = []
    forms = [(12, 1), (13, 1), (14, 1), (2, 1), (68, 1), (63, 4), (62, 4), (53, 4), (33, 2), (43, 3), (102, 1)]
    strings = [''.join(s) for n in range(1, 4) for s in itertools.product('mx', repeat=n)]
    for (sh, fn) in forms:
        for ctx in ('alone', 'over-allow', 'under-require'):
            for cs in strings:
                mock = 3 if sh == 102 else 0
                ops = ['mock %d' % mock]
                if ctx == 'over-allow':
                    allow = {1: 9, 2: 32, 3: 42, 4: 52}[fn] if mock == 0 else 101
                    ops.append(expect_line(2, allow, mock, retv=200))
                w = ((1, 1), (0, 0), (0, 0)) if DERIVED[sh]['nw'] else ((0, 0),) * 3
                ops.append(expect_line(1, sh, mock, p=((1, 1), (0, 0)), w=w, retv=100, lo=0, hi=0))
                if ctx == 'under-require':
                    req = {1: 2, 2: 30, 3: 40, 4: 50}[fn] if mock == 0 else 100
                    ops.append(expect_line(3, req, mock, p=((1, 1), (0, 0)), retv=300, lo=1, hi=1))
                for ch in cs:
                    ops.append('call %d %d %d 0' % (mock, fn, 1 if ch == 'm' else 0))
                ops += ['release 1']
                segs.append(('xf-%d-%s-%s' % (sh, ctx, cs), ops))
    # scoped forms: the forbidding expectation lives in a block
    for sh in (73, 76, 79, 81):
        fn = DERIVED[sh]['fn']
        for cs in strings:
            w = ((1, 1), (0, 0), (0, 0)) if DERIVED[sh]['nw'] else ((0, 0),) * 3
            ops = ['mock 0', expect_line(2, 9 if fn == 1 else 52, 0, retv=200),
                   'scope' + expect_line(1, sh, 0, p=((1, 1), (0, 0)), w=w, retv=100, lo=0, hi=0)[len('expect'):]]
            ops += ['call 0 %d %d 0' % (fn, 1 if ch == 'm' else 0) for ch in cs]
            ops += ['endscope', 'call 0 %d 1 0' % fn]
            segs.append(('xf-scoped-%d-%s' % (sh, cs), ops))
    return segs

def exhaustive_clauses():
    """C08: WITH lists of length 1..3 with every position failing / none failing, SIDE_EFFECT lists of length 0..3 with a throwing
    effect at every position, RETURN / THROW / void, a matching call, a call matching nothing (report composed) and a second matching call"""
    segs = []
    # shape, nw, ns
    for sh in (3, 4, 21, 8, 51, 41, 31, 16, 25, 92):
        d = DERIVED[sh]
        nw, ns = d['nw'], d['ns']
        for failw in range(0, nw + 1):
            for thr in range(0, ns + 1):
                for kind in (1, 2):
                    w = [(0, 0)] * 3
                    if failw:
                        w[failw - 1] = (1, 7)            # WITH number failw requires _1 == 7: fails for the argument 1
                    se = [0, 0, 0]
                    if thr:
                        se[thr - 1] = kind
                    q = (1, 2) if d['nq'] == 2 else ((1, 0) if d['nq'] == 1 else (0, 0))
                    ops = ['mock 0', 'seq 1', 'seq 2', 'tracer 1 1',
                           expect_line(1, sh, 0, p=((0, 0), (0, 0)), w=tuple(w), se=tuple(se), retv=100, lo=0, hi=INF if d['rt'] else 1, q=q)]
                    fn = d['fn']
                    ops += ['call 0 %d 1 1' % fn, 'call 0 %d 7 7' % fn, 'call 0 %d 1 1' % fn, 'release 1', 'dtracer 1']
                    segs.append(('xc-%d-w%d-t%d.%d' % (sh, failw, thr, kind), ops))
    return segs

def exhaustive_monitors():
    """C13/C14: one watched object with 1..3 requirements (unsequenced / sequenced), every order of {release requirement i, destroy the object},
    with a copy, a move, a copy-assignment and a move-assignment of the object at the start"""
    segs = []
    for n in (1, 2, 3):
        for seqd in (0, 1):
            items = ['u%d' % k for k in range(1, n + 1)] + ['d']
            for perm in itertools.permutations(items):
                for pre in ('', 'cpobj 1 2', 'cpobjn 1 2', 'mvobj 1 2', 'asobj', 'masobj'):
                    ops = ['obj 1', 'seq 1']
                    if pre in ('asobj', 'masobj'):
                        ops.append('obj 2')
                    for k in range(1, n + 1):
                        ops.append('watch %d 1 %d %d 0' % (k, seqd, 1 if seqd else 0))
                    if pre in ('asobj', 'masobj'):
                        ops.append('%s 1 2' % pre)
                    elif pre:
                        ops.append(pre)
                    for it in perm:
                        ops.append('dobj 1' if it == 'd' else 'unwatch %s' % it[1:])
                    ops.append('dobj 2')
                    segs.append(('xm-%d-%d-%s-%s' % (n, seqd, ''.join(perm), pre.split()[0] if pre else 'none'), ops))
    return segs

def exhaustive_reports():
    """C15/C16: a saturated expectation that does not match, a saturated one that does, live expectations failing on a parameter / on the first /
    second WITH, on two functions; a call matching nothing, then a call a listed expectation accepts (OK report), reporter swapped in between"""
    segs = []
    for satmatch in (0, 1):
        for wfail in (0, 1, 2):
            for swap in (0, 1):
                for moved in (0, 1):
                    ops = ['mock 0',
                           expect_line(1, 2, 0, p=((1, 0), (0, 0)), retv=100, lo=1, hi=1), 'call 0 1 0 0',       # saturated, matches 0
                           expect_line(2, 4, 0, p=((2, 0), (0, 0)), w=((1, 1) if wfail == 1 else (0, 0), (1, 1) if wfail == 2 else (0, 0), (0, 0)), retv=200, lo=1, hi=2),
                           expect_line(3, 40, 0, p=((1, 1), (1, 2)), retv=300, lo=1, hi=1)]
                    if moved:
                        ops.append('mmock 0 1')
                    m = 1 if moved else 0
                    if swap:
                        ops.append('setrep 2 1')
                    ops.append('call %d 1 %d 0' % (m, 0 if satmatch else 2))        # 0: only the saturated one matches; 2: e2 unless a WITH fails
                    ops.append('call %d 3 1 1' % m)                                   # g(1,1): second parameter rejects
                    ops.append('call %d 3 2 2' % m)                                   # g(2,2): first parameter rejects
                    ops.append('call %d 3 0 0' % m)                                   # g(0,0): BOTH parameters reject (both must be listed)
                    if swap:
                        ops.append('setrep 1 0')
                    ops.append('call %d 1 1 0' % m)                                   # e2 accepts when its WITH terms allow
                    ops.append('call %d 3 1 2' % m)
                    ops += ['release 2', 'release 3', 'release 1']
                    segs.append(('xr-%d-%d-%d-%d' % (satmatch, wfail, swap, moved), ops))
    return segs

def exhaustive_tracers():
    """C17: 1..3 tracers (custom / stream), every destruction order, an accepted call (value, void, std exception, other exception) after every step"""
    segs = []
    for n in (1, 2, 3):
        for kinds in itertools.product((1, 2), repeat=n):
            if n == 3 and kinds.count(2) > 1:
                continue
            for perm in itertools.permutations(range(1, n + 1)):
                ops = ['mock 0', expect_line(1, 9, 0, retv=100), expect_line(2, 52, 0), expect_line(3, 15, 0, p=((1, 5), (0, 0)), lo=0, hi=INF),
                       expect_line(4, 16, 0, p=((1, 6), (0, 0)), se=(0, 0, 0), lo=0, hi=INF), 'call 0 1 0 0']
                probe = ['call 0 1 0 0', 'call 0 4 0 0', 'call 0 1 5 0', 'call 0 1 6 0']
                for t in range(1, n + 1):
                    ops.append('tracer %d %d' % (t, kinds[t - 1]))
                    ops += probe[:2]
                ops += probe
                for t in perm:
                    ops.append('dtracer %d' % t)
                    ops += probe
                segs.append(('xtr-%s-%s' % (''.join(map(str, kinds)), ''.join(map(str, perm))), ops))
    return segs

def exhaustive_forbid_seq():
    """C07/C02: an older unsequenced forbidding expectation on f(1) (FORBID_CALL / TIMES(0) / RT_TIMES(0,0)) under a newer sequenced
    REQUIRE_CALL f(1) that stands behind k = 0..2 optional or already satisfied steps of its sequence (steps on f(0): ALLOW_CALL,
    AT_MOST(2), or AT_LEAST(1) already called): with k = 0 the sequenced expectation takes the call, otherwise the forbidding one
    (cost 0) is designated and the call is one fatal report; every call string over {f(0), f(1)} up to length 3"""
    segs = []
    strings = [''.join(x) for n in range(1, 4) for x in itertools.product('01', repeat=n)]
    for fsh in (12, 14, 2):
        for k in (0, 1, 2):
            for pk in (('allow',), ('atmost',), ('atleast',)) if k else ((),):
                for cs in strings:
                    ops = ['mock 0', 'seq 1']
                    ops.append(expect_line(6, fsh, 0, p=((1, 1), (0, 0)), retv=600, lo=0, hi=0))            # the forbidding one, oldest
                    pre_calls = []
                    for j in range(k):
                        kind = pk[0]
                        if kind == 'allow':
                            ops.append(expect_line(1 + j, 11, 0, p=((1, 0), (0, 0)), retv=100 + j, q=(1, 0)))   # ALLOW_CALL in sequence
                        elif kind == 'atmost':
                            ops.append(expect_line(1 + j, 5, 0, p=((1, 0), (0, 0)), retv=100 + j, lo=0, hi=2, q=(1, 0)))
                        else:
                            ops.append(expect_line(1 + j, 5, 0, p=((1, 0), (0, 0)), retv=100 + j, lo=1, hi=INF, q=(1, 0)))
                            pre_calls.append('call 0 1 0 0')
                    ops.append(expect_line(4, 5, 0, p=((1, 1), (0, 0)), retv=400, lo=1, hi=2, q=(1, 0)))           # newest, sequenced
                    # an AT_LEAST(1) step must be satisfied by its own call; with two of them the first is passed over by the second's call
                    ops += pre_calls[:1] if k == 1 else (['call 0 1 0 0'] if pre_calls else [])
                    ops += ['call 0 1 %s 0' % c for c in cs]
                    ops += ['release 4', 'release 1', 'release 2', 'release 6', 'dseq 1']
                    segs.append(('xfs-%d-%d-%s-%s' % (fsh, k, pk[0] if pk else 'none', cs), ops))
    # the forbidding expectation is ITSELF a step of the sequence (RT_TIMES(0, 0) with IN_SEQUENCE - the one forbidding form
    # that may be sequenced), standing first, behind an optional step or behind a still required step (out of order): the
    # call is one fatal 'forbidden call' report in every position, never a sequence mismatch
    for pos in ('first', 'opt', 'req'):
        for older in (False, True):
            for cs in strings:
                ops = ['mock 0', 'seq 1']
                if older:
                    ops.append(expect_line(6, 9, 0, p=((1, 1), (0, 0)), retv=600))
                if pos == 'opt':
                    ops.append(expect_line(1, 11, 0, p=((1, 0), (0, 0)), retv=100, q=(1, 0)))
                elif pos == 'req':
                    ops.append(expect_line(1, 5, 0, p=((1, 0), (0, 0)), retv=100, lo=1, hi=1, q=(1, 0)))
                ops.append(expect_line(2, 5, 0, p=((1, 1), (0, 0)), retv=200, lo=0, hi=0, q=(1, 0)))
                ops += ['call 0 1 %s 0' % c for c in cs]
                ops += ['release 2', 'release 1', 'release 6', 'dseq 1']
                segs.append(('xfs-seqforbid-%s-%d-%s' % (pos, int(older), cs), ops))
    return segs

def exhaustive_ok():
    """C16: every kind of handler (RETURN on int / string-returning / no-parameter / three-parameter functions, void without handler,
    THROW on value and on void functions, throwing side effect) x bounds: accepted calls before and after a reporter swap each give
    exactly one OK report to the reporter then installed, the call beyond the upper bound gives none"""
    segs = []
    kinds = [(2, '1 0 0'), (15, '1 0 0'), (16, '1 0 0'), (50, '4 0 0'), (55, '4 0 0'), (51, '4 0 0'), (130, '5 0 0'), (134, '5 0 0'),
             (135, '6 0 0'), (142, '7 0 0'), (144, '7 0 0'), (30, '2 0 0'), (40, '3 0 0')]
    for (sh, call) in kinds:
        for (lo, hi) in ((1, 2), (2, 2), (0, INF)):
            for se in ((0, 0, 0), (1, 0, 0)):
                ops = ['mock 0', expect_line(1, sh, 0, p=((0, 0), (0, 0)), w=((0, 0),) * 3, se=se, retv=100, lo=lo, hi=hi),
                       'call 0 %s' % call, 'setrep 2 1', 'call 0 %s' % call, 'call 0 %s' % call, 'setrep 1 1', 'release 1']
                segs.append(('xok-%d-%d-%d-%d' % (sh, lo, hi, se[0]), ops))
    return segs

EXHAUSTIVE.update({'C07': [exhaustive_forbid, exhaustive_forbid_seq], 'C08': [exhaustive_clauses], 'C13': [exhaustive_monitors, exhaustive_seqmonitors], 'C14': [exhaustive_monitors, exhaustive_seqdeath, exhaustive_tracers],
                   'C15': [exhaustive_reports, exhaustive_forbid, exhaustive_seqmonitors], 'C16': [exhaustive_reports, exhaustive_ok], 'C17': [exhaustive_tracers]})
