#!/usr/bin/env python3
"""raw driver trace (ndjson with raw report / trace texts) -> structured ndjson
for the TLA+ trace validator.  Pure projection: text is parsed into fields
(kind by leading phrase, entity by file:line through the generated site table,
numbers, listings).  No expected behaviour is computed here.

Every event gets a fixed schema (TLC cannot compare values of different types
and rejects missing keys), absent values are sentinels (0, "", [])."""
import json, re, sys, os

FNSIG = {('f', 'int(int)'): 1, ('f', 'auto (int) -> int'): 1,   # the arity-less MAKE_MOCK form prints the signature as written
         ('f', 'decltype(::trompeloeil::nonconst_member_signature(&trompeloeil_interface_name::f))::type'): 1,   # IMPLEMENT_MOCK1
         ('f', 'int(std::string const&)'): 2, ('g', 'int(int, int)'): 3, ('v', 'void(int)'): 4, ('z', 'int()'): 5, ('h', 'int(int, int, int)'): 6, ('q', 'std::string(int)'): 7}

LOC = r'(\S+?\.cpp):(\d+)'

class Sites:
    def __init__(self, path):
        self.by_loc = json.load(open(path))
        self.by_name = {}
        for k, v in self.by_loc.items():
            if v['kind'] == 'exp':
                self.by_name.setdefault(v['name'], set()).add(v['slot'])
    def ent(self, file, line):
        """(entity handle, shape) of a source location; (0,0) if unknown"""
        v = self.by_loc.get('%s:%s' % (os.path.basename(file), line))
        if not v:
            return (0, 0, None)
        if v['kind'] == 'exp':
            return (v['slot'], v['shape'], v)
        return (100 + v['k'], v['nq'], v)
    def mention(self, name, file, line):
        """entity, shape, nameok for a '<name> at <file>:<line>' mention"""
        e, sh, v = self.ent(file, line)
        ok = 1 if (v is not None and v['name'] == name) else 0
        return e, sh, ok
    def slot_of_name(self, name):
        s = self.by_name.get(name)
        if s and len(s) == 1:
            return next(iter(s))
        return 0

def pval(tok):
    tok = tok.strip()
    if re.fullmatch(r'-?\d+', tok):
        return int(tok)
    m = re.fullmatch(r's(-?\d+)', tok)
    if m:
        return int(m.group(1))
    return -999

def parse_params(text):
    """'  param  _1 == 3' lines -> [3, ...]; returns (values, positions_ok)"""
    vals, ok = [], 1
    for i, m in enumerate(re.finditer(r'^  param +_(\d+) == (.*)$', text, re.M)):
        if int(m.group(1)) != i + 1:
            ok = 0
        vals.append(pval(m.group(2)))
    return vals, ok

def blank_rep(r):
    return dict(r=r['r'], sev=r['sev'], kind='other', ent=0, sh=0, locent=0, nameok=1, fn=0, args=[], argsok=1,
                lo=0, n=0, pslots=[], lk=0, lst=[], det=[], seqpos=0, nomore=0, mentions=[], ints=[], textok=1)

def parse_report(r, sites):
    o = blank_rep(r)
    msg = r['msg']
    le, lsh, _ = sites.ent(r['file'], r['line']) if r['line'] else (0, 0, None)
    o['locent'] = le
    m = re.match(r'No match for call of (\w+) with signature (.+?) with\.\n', msg)
    if m:
        o['kind'] = 'nomatch'
        o['fn'] = FNSIG.get((m.group(1), m.group(2)), 0)
        rest = msg[m.end():]
        # actual parameters come first, up to the first blank line / end
        mh = re.match(r'(?:  param .*\n)*', rest)          # the parameter lines (none for a function without parameters)
        head = mh.group(0)
        o['args'], o['argsok'] = parse_params(head)
        tail = rest[len(head):]
        if 'Matches saturated call requirement' in tail:
            o['lk'] = 1
            for mm in re.finditer(r'^  (.+?) at ' + LOC + r'\b[^\n]*$', tail, re.M):      # anything may follow the location on the line
                e, sh, ok = sites.mention(mm.group(1), mm.group(2), mm.group(3))
                o['lst'].append(e); o['det'].append(sh)
                o['nameok'] &= ok
        else:
            parts = tail.split('\nTried ')[1:]
            if parts:
                o['lk'] = 2
            for p in parts:
                mm = re.match(r'(.+?) at ' + LOC + r'\b[^\n]*(?:\n|$)', p)
                if not mm:
                    o['nameok'] = 0
                    continue
                e, sh, ok = sites.mention(mm.group(1), mm.group(2), mm.group(3))
                o['nameok'] &= ok
                body = p[mm.end():]
                d = 0
                mw = re.search(r'Failed WITH\(WC\((\d+),(\d+),(?:_1|0)\)\)', body)
                if mw:
                    d = 10 + int(mw.group(2))
                    if int(mw.group(1)) != e:
                        o['nameok'] = 0
                    if len(re.findall(r'Failed WITH', body)) != 1:
                        d = 19         # more than one failing WITH listed
                else:
                    for me in re.finditer(r'^  Expected +_(\d+) T\((\d+),(\d+)\)$', body, re.M):
                        d |= 1 << (int(me.group(1)) - 1)
                        if int(me.group(2)) != e or int(me.group(3)) != int(me.group(1)):
                            o['nameok'] = 0
                    for me in re.finditer(r'^  Expected +_(\d+) == 1$', body, re.M):   # literal-value shape f(1)
                        d |= 1 << (int(me.group(1)) - 1)
                o['lst'].append(e); o['det'].append(d)
        return o
    m = re.match(r'Match of forbidden call of (.+?) at ' + LOC + r'\b[^\n]*\n', msg)
    if m:
        o['kind'] = 'forbidden'
        o['ent'], o['sh'], o['nameok'] = sites.mention(m.group(1), m.group(2), m.group(3))
        o['args'], o['argsok'] = parse_params(msg[m.end():])
        return o
    m = re.match(r'Sequence mismatch for sequence "([^"]*)"[^\n]*? matching call of (.+?) at ' + LOC + r'\b', msg)
    if m:
        o['kind'] = 'seqmismatch'
        e, sh, v = sites.ent(m.group(3), m.group(4))
        o['ent'], o['sh'] = e, sh
        if v is None:
            o['nameok'] = 0
        else:
            want = v['name'] if v['kind'] == 'exp' else v['call']
            o['nameok'] = 1 if want == m.group(2) else 0
        mq = re.search(r'q\[?(\d)\]?', m.group(1))
        if mq:
            qn = int(mq.group(1))
            o['seqpos'] = qn + 1 if 'c.q[' in m.group(1) else qn
        rest = msg[m.end():]
        if 'has no more pending expectations' in rest:
            o['nomore'] = 1
        for mm in re.finditer(r'has (.+?) at ' + LOC + r' (first in line|as first required expectation)', rest):
            e2, sh2, ok = sites.mention(mm.group(1), mm.group(2), mm.group(3))
            o['lst'].append(e2); o['det'].append(1 if mm.group(4).startswith('as first') else 0)
            o['nameok'] &= ok
        return o
    m = re.match(r'(Unfulfilled expectation|Pending expectation on destroyed mock object):\nExpected (.+) to be called (once|(\d+) times), actually (never called|called once|called (\d+) times)\n', msg)
    if m:
        o['kind'] = 'unfulfilled' if m.group(1).startswith('Unf') else 'pending'
        o['ent'], o['sh'] = le, lsh
        v = sites.by_loc.get('%s:%s' % (os.path.basename(r['file']), r['line']))
        o['nameok'] = 1 if (v and v.get('name') == m.group(2)) else 0
        o['lo'] = 1 if m.group(3) == 'once' else int(m.group(4))
        o['n'] = 0 if m.group(5) == 'never called' else (1 if m.group(5) == 'called once' else int(m.group(6)))
        rest = msg[m.end():]
        for mm in re.finditer(r'^  param +_(\d+) T\((\d+),(\d+)\)$', rest, re.M):
            o['pslots'].append(int(mm.group(2)) if mm.group(1) == mm.group(3) else -1)
        for mm in re.finditer(r'^  param +_(\d+) (matching _|== 1|matching ANY\(int\))$', rest, re.M):
            o['pslots'].append(le)
        return o
    m = re.match(r'Object (.+?) is still alive', msg)
    if m:
        o['kind'] = 'stillalive'
        o['ent'], o['sh'] = le, lsh
        v = sites.by_loc.get('%s:%s' % (os.path.basename(r['file']), r['line']))
        o['nameok'] = 1 if (v and v.get('obj') == m.group(1)) else 0
        return o
    m = re.match(r'Unexpected destruction of (\S+)@(0x[0-9a-fA-F]+)', msg)
    if m:
        o['kind'] = 'unexpected_death'
        return o
    m = re.match(r'Sequence expectations not met at destruction of sequence object "([^"]*)":', msg)
    if m:
        o['kind'] = 'seq_teardown'
        rest = msg[m.end():]
        for mm in re.finditer(r'^  missing (.+?) at ' + LOC + r'\b[^\n]*$', rest, re.M):
            e2, sh2, ok = sites.mention(mm.group(1), mm.group(2), mm.group(3))
            o['lst'].append(e2); o['det'].append(sh2)
            o['nameok'] &= ok
        return o
    # The wording is not one this parser knows (kind stays 'other').  The properties constrain the CONTENT of a report,
    # not its wording, so the validator judges such a report by content only: which expectations it mentions by
    # '<text> at <file>:<line>' (with their own text), which integers it prints, its severity and its location.
    for mm in re.finditer(r' at ' + LOC, msg):
        e, sh, v = sites.ent(mm.group(1), mm.group(2))
        if e:
            o['mentions'].append(e)
            wants = [w for w in (v.get('name'), v.get('call'), v.get('obj')) if w]
            if wants and not any(w in msg for w in wants):
                o['textok'] = 0
    if le and not o['mentions']:
        v = sites.by_loc.get('%s:%s' % (os.path.basename(r['file']), r['line']))
        wants = [w for w in (v.get('name'), v.get('call'), v.get('obj')) if w] if v else []
        if wants and not any(w in msg for w in wants):
            o['textok'] = 0
    o['ints'] = sorted({int(x) for x in re.findall(r'-?\d{1,9}', msg)})[:60]      # every number the text prints (a superset of the argument values)
    return o

def parse_trace_msg(t, sites):
    o = dict(t=t['t'], ent=0, sh=0, nameok=1, args=[], argsok=1, res='bad', resv=0)
    msg = t['msg']
    file, line = t['file'], t['line']
    if file == '<stream>':
        m = re.match(LOC + r'\n', msg)
        if not m:
            return o
        file, line = m.group(1), int(m.group(2))
        msg = msg[m.end():]
        if msg.endswith('\n\n'):
            msg = msg[:-1]      # stream_tracer appends its own newline
    m = re.match(r'(.+) with\.\n', msg)
    if not m:
        # unknown trace wording: judged by content (which expectation, its text, the values printed)
        e, sh, v = sites.ent(file, line)
        wants = [w for w in ((v.get('name'), v.get('call')) if v else ()) if w]
        o.update(ent=e, sh=sh, nameok=1 if (not wants or any(w in msg for w in wants)) else 0,
                 args=sorted({int(x) for x in re.findall(r'-?\d{1,9}', msg)})[:40], res='other')
        return o
    o['ent'], o['sh'], o['nameok'] = sites.mention(m.group(1), file, line)
    rest = msg[m.end():]
    o['args'], o['argsok'] = parse_params(rest)
    tail = re.sub(r'^  param .*\n', '', rest, flags=re.M)
    if tail == '':
        o['res'] = 'void'
    else:
        m = re.fullmatch(r' -> r?(-?\d+)\n', tail)          # q() returns the string "r<value>"
        if m:
            o['res'], o['resv'] = 'val', int(m.group(1))
        else:
            m = re.fullmatch(r'threw exception: what\(\) = (\w+?)(\d+)(?:\.(\d+))?\n', tail)
            if m:
                o['res'] = m.group(1)
                o['resv'] = int(m.group(2)) * (10 if m.group(3) else 1) + (int(m.group(3)) if m.group(3) else 0)
            elif tail == 'threw unknown exception\n':
                o['res'] = 'unk'
    return o

def parse_thr(s):
    if s == '':
        return '', 0
    m = re.fullmatch(r'std:(\w+?)(\d+)(?:\.(\d+))?', s)
    if m:
        return m.group(1), int(m.group(2)) * (10 if m.group(3) else 1) + (int(m.group(3)) if m.group(3) else 0)
    m = re.fullmatch(r'int:(-?\d+)', s)
    if m:
        return 'int', int(m.group(1))
    if s.startswith('logic:'):
        return 'logic', 0
    return 'unk', 0

def normalize_event(d, sites):
    e = d['e']
    if e == 'seg':
        return dict(e='Seg', id=str(d['id']))
    if e == 'endseg':
        return dict(e='EndSeg', id=str(d['id']), exit=d['exit'], sig=d['sig'], san=d['san'][:300])
    if e == 'fin':
        return dict(e='Fin')
    if e == 'terminate':
        return dict(e='Terminate')
    if e == 'final':
        return dict(e='final', fl=d['fl'], mon=d['mon'], comp=d['comp'])
    o = dict(e=e, a=d['a'], skip=d['skip'], acc=d['acc'], ret=d['ret'])
    o['thr'], o['thrv'] = parse_thr(d['thr'])
    o['reps'] = [parse_report(r, sites) for r in d['reps']]
    o['oks'] = [dict(r=k['r'], ent=sites.slot_of_name(k['msg'])) for k in d['oks']]
    trs = []
    for t in d['trs']:
        if t['file'] == '<stream>':
            # a stream_tracer's buffer may hold several records (nested calls): each starts with its file:line line
            parts = re.split(r'(?m)^(?=\S+?\.cpp:\d+\n)', t['msg'])
            trs += [dict(t, msg=p) for p in parts if p]
        else:
            trs.append(t)
    o['trs'] = [parse_trace_msg(t, sites) for t in trs]
    o['cl'] = d['cl']
    o['probe'] = d['probe']
    o['fl'] = d.get('fl', [])
    o['mon'] = d.get('mon', [])
    o['comp'] = d.get('comp', [])
    o['q'] = d.get('q', [-1, -1])
    o['conc'] = 0
    o['lockviol'] = []
    return o

def normalize_file(raw_path, out_path, sites):
    n = 0
    with open(raw_path) as f, open(out_path, 'w') as g:
        for line in f:
            line = line.strip()
            if not line:
                continue
            try:
                d = json.loads(line)
            except Exception:
                continue          # a line truncated by a crash; EndSeg reports the crash
            g.write(json.dumps(normalize_event(d, sites), separators=(',', ':')) + '\n')
            n += 1
    return n

if __name__ == '__main__':
    sites = Sites(sys.argv[1])
    print(normalize_file(sys.argv[2], sys.argv[3], sites))


# ---------------------------------------------------------------- concurrent traces (C12)

def linearize_segment(events, sites):
    """events of one concurrent segment (raw, incl. tickets and hook events) -> normalised events in
    linearization order: every critical section is one event, ordered by the ticket the instrumented lock issued."""
    lin = []          # (key, normalised event)
    seqno = 0
    last_ticket = {}
    for d in events:
        seqno += 1
        base = normalize_event(d, sites)
        base['conc'] = 1
        tid = d['thr_id']
        hooks = d.get('hooks', [])
        base['lockviol'] = [h['n'] for h in hooks if h['sh'] and not h['held'] and not h['n'].startswith('g_')]   # g_*: events of the generic binding, third field is data
        tickets = d.get('tickets', [])
        ph = d.get('ph', 'thr')
        def key_for(t):
            if t:
                last_ticket[tid] = t
                last_ticket['max'] = max(last_ticket.get('max', 0), t)
                return (float(t), 0, seqno)
            if ph == 'pre':
                return (-1.0, 0, seqno)                                # main thread, before the threads exist
            if ph == 'post':
                return (last_ticket.get('max', 0) + 0.5, 0, seqno)    # main thread, after the join
            return (last_ticket.get(tid, 0) + 0.5, tid, seqno)       # unlocked step: after the thread's previous section
        blank = dict(base, reps=[], oks=[], cl=[], acc=1, ret=0, thr='', thrv=0, lockviol=[], q=[-1, -1])
        if d['e'] == 'expect' and not d['skip'] and d['thr'] == '':
            a = d['a']
            nreg = 0
            subs = [h for h in hooks if h['n'] in ('seq_add', 'limits', 'hook')]
            first = True
            for h in subs:
                k = key_for(h['t'])
                if first:
                    lin.append(((k[0] - 0.25, k[1], k[2]), dict(blank, e='ecreate', a=a)))
                    first = False
                if h['n'] == 'seq_add':
                    nreg += 1
                    lin.append((k, dict(blank, e='ereg', a=[a[0], nreg])))
                elif h['n'] == 'limits':
                    lin.append((k, dict(blank, e='elim', a=[a[0]])))
                else:
                    lin.append((k, dict(blank, e='ehook', a=[a[0], a[2]], lockviol=base['lockviol'])))
            if first:      # no hook events at all: the hooks are missing -> let the validator see it
                lin.append((key_for(tickets[0] if tickets else 0), dict(base, lockviol=['no-hook-events'])))
        elif d['e'] == 'watch' and not d['skip']:
            a = d['a']
            subs = [h for h in hooks if h['n'] in ('watch', 'seq_add')]
            nreg = 0
            for h in subs:
                k = key_for(h['t'])
                if h['n'] == 'watch':
                    lin.append((k, dict(blank, e='wcreate', a=[a[0], a[1]], lockviol=base['lockviol'])))
                else:
                    nreg += 1
                    lin.append((k, dict(blank, e='wreg', a=[a[0], a[2 + nreg]])))
            if not subs:
                lin.append((key_for(tickets[0] if tickets else 0), dict(base, lockviol=['no-hook-events'])))
        elif d['e'] == 'dmock' and not d['skip']:
            # a mock object's destruction is one critical section per expectation list: the member functions in reverse
            # declaration order, for each the active list and then the saturated one (hook "mock_dtor" inside each)
            a = d['a']
            order = [(1, 0), (1, 1)] if a[0] == 3 else [(f, w) for f in (7, 6, 5, 4, 3, 2, 1) for w in (0, 1)]
            subs = [h for h in hooks if h['n'] == 'mock_dtor']
            if len(subs) != len(order):
                lin.append((key_for(tickets[0] if tickets else 0), dict(base, lockviol=['no-hook-events'])))
            else:
                raw_t = [r.get('t', 0) for r in d['reps']]
                used = set()
                for i, (h, (f, w)) in enumerate(zip(subs, order)):
                    mine = [j for j, t in enumerate(raw_t) if t == h['t'] and h['t']]
                    used.update(mine)
                    final = 1 if i == len(order) - 1 else 0
                    ev = dict(blank, e='dmlist', a=[a[0], f, w, final, 1 if i == 0 else 0], reps=[base['reps'][j] for j in mine])
                    if final:      # anything not sent from one of the sections is left for the validator to reject
                        ev['reps'] = ev['reps'] + [base['reps'][j] for j in range(len(raw_t)) if j not in used]
                        ev['lockviol'] = base['lockviol']
                    lin.append((key_for(h['t']), ev))
        elif d['e'] == 'query' and not d['skip'] and len(tickets) == 2:
            # is_satisfied() and is_saturated() are two critical sections
            lin.append((key_for(tickets[0]), dict(base, e='qsat', q=[base['q'][0], -1])))
            lin.append((key_for(tickets[1]), dict(blank, e='qsatur', a=d['a'], q=[-1, base['q'][1]])))
        else:
            lin.append((key_for(tickets[0] if tickets else 0), base))
    lin.sort(key=lambda x: x[0])
    return [e for k, e in lin]

def normalize_conc_file(raw_path, out_path, sites):
    n = 0
    cur = None
    with open(raw_path) as f, open(out_path, 'w') as g:
        def flush():
            nonlocal cur, n
            if cur is not None:
                for e in linearize_segment(cur, sites):
                    g.write(json.dumps(e, separators=(',', ':')) + '\n'); n += 1
            cur = None
        for line in f:
            line = line.strip()
            if not line:
                continue
            try:
                d = json.loads(line)
            except Exception:
                continue
            if d['e'] == 'seg':
                flush()
                g.write(json.dumps(dict(e='Seg', id=str(d['id']))) + '\n'); n += 1
                cur = []
            elif d['e'] in ('final', 'fin', 'endseg', 'terminate'):
                flush()
                g.write(json.dumps(normalize_event(d, sites), separators=(',', ':')) + '\n'); n += 1
            elif cur is not None:
                cur.append(d)
        flush()
    return n
