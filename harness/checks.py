"""The registered checks.  Core properties (C01..C08, C13..C17) share one machinery:
TLC model checking of spec/MCCore configs + conformance of the real library
(sequential driver traces validated by spec/TraceCore)."""
import hashlib, json, os, shutil, time
import lib, gen_scripts
from lib import log

REGISTRY = {}

# property -> (profiles [(name, n_quick, n_thorough)], MC config stem or None)
CORE = {
    'C01': dict(profiles=[('lifecycle', 350, 18000), ('overlap', 250, 9000), ('sequences', 200, 9000), ('forbid', 100, 3000)], mc='MC_C01'),
    'C02': dict(profiles=[('overlap', 500, 24000), ('sequences', 150, 6000), ('lifecycle', 100, 3000)], mc='MC_C02'),
    'C03': dict(profiles=[('bounds', 500, 24000), ('overlap', 100, 3000)], mc='MC_C03'),
    'C04': dict(profiles=[('teardown', 500, 24000), ('bounds', 100, 3000)], mc='MC_C04'),
    'C05': dict(profiles=[('sequences', 600, 30000), ('overlap', 100, 6000)], mc=['MC_C05', 'MC_C05b']),
    'C06': dict(profiles=[('sequences', 600, 30000)], mc='MC_C06'),
    'C07': dict(profiles=[('forbid', 500, 24000), ('lifecycle', 100, 3000)], mc='MC_C07'),
    'C08': dict(profiles=[('clauses', 500, 24000)], mc='MC_C08'),
    'C13': dict(profiles=[('deathwatch', 600, 30000), ('sequences', 100, 6000)], mc='MC_C13'),
    'C14': dict(profiles=[('teardown_all', 600, 36000), ('deathwatch', 100, 6000)], mc='MC_C14'),
    'C15': dict(profiles=[('lifecycle', 150, 6000), ('bounds', 100, 6000), ('sequences', 150, 6000), ('forbid', 100, 6000),
                          ('teardown', 100, 6000), ('deathwatch', 100, 6000)], mc='MC_C15'),
    'C16': dict(profiles=[('reporters', 500, 24000), ('overlap', 100, 3000)], mc='MC_C16'),
    'C17': dict(profiles=[('trace', 500, 24000)], mc='MC_C17'),
}

ASSUMPTIONS_CORE = [
    'caller obligations of the properties are generator preconditions (no use of destroyed objects; fatal reporter throws)',
    'report texts are compared as parsed structure (kind by leading phrase, severity, entity by file:line, numbers, listings), never as raw text',
    'behaviour after a sequence object died while entries still reference it is unspecified: only memory safety is checked from there on',
    'argument / operand domains are small integers; histories are bounded in length (see rule)',
    'TLC, the JSON CommunityModule, g++ 12 ASan/UBSan/LSan are trusted',
]

def seg_hash(ops):
    return hashlib.sha1('\n'.join(ops).encode()).hexdigest()

def trace_stats(norm_path):
    """per-segment facts measured from the recorded trace"""
    segs, cur = {}, None
    for line in open(norm_path):
        d = json.loads(line)
        if d['e'] == 'Seg':
            cur = segs.setdefault(d['id'], dict(acc=0, rej=0, reps=0, events=0, multi=0))
        elif cur is not None and 'a' in d:
            cur['events'] += 1
            if d['e'] == 'call':
                if d['acc']:
                    cur['acc'] += 1
                else:
                    cur['rej'] += 1
            cur['reps'] += len(d['reps'])
    return segs

def replay_file(prop, seg_id, ops, viols, extra=''):
    d = os.path.join(lib.BUILD, 'replay')
    os.makedirs(d, exist_ok=True)
    p = os.path.join(d, '%s-%s.replay' % (prop, seg_id.replace('/', '_')))
    with open(p, 'w') as f:
        f.write('# replay: python3 harness/verif.py --replay %s\n' % p)
        f.write('# property %s, segment %s\n' % (prop, seg_id))
        for v in viols:
            f.write('# mismatch: %s\n' % json.dumps(v))
        if extra:
            f.write('# ' + extra.replace('\n', '\n# ') + '\n')
        f.write('seg %s\n' % seg_id)
        for o in ops:
            f.write(o + '\n')
    return p

def known_match(k, prop, v, ops):
    """does open known finding k explain violation v of a segment with these ops?"""
    if prop not in k.get('property', []) and not (set(v.get('prop', '').split()) & set(k.get('property', []))):
        return False
    m = k.get('match', {})
    if 'field' in m and m['field'] != v.get('field'):
        return False
    if 'got_contains' in m and m['got_contains'] not in v.get('got', ''):
        return False
    if 'ops_contain' in m and not all(any(o.startswith(x) for o in ops) for x in m['ops_contain']):
        return False
    return True

def run_core(prop, tier, seed, t0, cfgname='TraceCore.cfg'):
    spec = CORE[prop]
    work = os.path.join(lib.BUILD, 'work-%s-%d' % (prop, os.getpid()))
    shutil.rmtree(work, ignore_errors=True)
    os.makedirs(work)
    segs = []
    for name, nq, nt in spec['profiles']:
        segs += gen_scripts.gen(name, nq if tier == 'quick' else nt, seed)
    # every core property also sees a slice of every other profile: the properties are facets of one state machine
    mine = {p[0] for p in spec['profiles']}
    for name in sorted(gen_scripts.PROFILES):
        if name not in mine:
            segs += gen_scripts.gen(name, 40 if tier == 'quick' else 1000, seed + 7, prefix='mix-' + name)
    segs += fixed_segments(prop)
    exhaustive_note = []
    for fn in gen_scripts.EXHAUSTIVE.get(prop, []):
        xs = fn()
        if tier == 'quick' and len(xs) > 2500:
            import random as _r
            xs = _r.Random(seed).sample(xs, 2500)
            exhaustive_note.append('%s: %d of the enumerated histories (seeded sample; all of them in the thorough tier)' % (fn.__name__, len(xs)))
        else:
            exhaustive_note.append('%s: all %d histories - %s' % (fn.__name__, len(xs), ' '.join(fn.__doc__.split())))
        segs += xs
    td_mc = None
    if prop == 'C14':
        td, td_mc = teardown_segments(tier, seed)
        segs += td
    by_id = {sid: ops for sid, ops in segs}
    res = lib.conformance(segs, work, cfgname)
    errors = [r['error'] for r in res if 'error' in r]
    if errors:
        print('CHECK-ERROR property=%s %s' % (prop, errors[0][:3000]))
        return 2
    viols, events, stats = [], 0, {}
    for r in res:
        events += r['events']
        viols += r['viol']
        stats.update(trace_stats(r['norm']))
    # group violations by segment; a violation counts for this check if its field belongs to this property
    # (anything else is still reported, under the first property it belongs to)
    known = lib.load_known()
    by_seg = {}
    for v in viols:
        by_seg.setdefault(v['seg'], []).append(v)
    out_lines, nviol, known_hits = [], 0, {}
    confirm = []
    for sid, vs in by_seg.items():
        ops = by_id.get(sid, [])
        rest = []
        for v in vs:
            ks = [k for k in known.get('open', []) if known_match(k, prop, v, ops)]
            if ks:
                known_hits.setdefault(ks[0]['id'], (ks[0], sid))
            else:
                rest.append(v)
        if rest:
            confirm.append((sid, ops, rest))
    # rule 5: report only what repeats when the segment is re-run alone
    confirmed = []
    for sid, ops, vs in confirm[:8]:
        w2 = os.path.join(work, 're-' + hashlib.sha1(sid.encode()).hexdigest()[:8])
        r2 = lib.conformance([(sid, ops)], w2, cfgname, nchunks=1)
        if r2 and 'error' not in r2[0] and r2[0]['viol']:
            confirmed.append((sid, ops, r2[0]['viol']))
        elif r2 and 'error' in r2[0]:
            confirmed.append((sid, ops, vs))
    for sid, ops, vs in confirm[8:]:
        confirmed.append((sid, ops, vs))
    for sid, ops, vs in confirmed:
        tags = set()
        for v in vs:
            tags |= set(v['prop'].split())
        # the line always names the property whose check is running (the mismatching fields and the
        # properties they belong to are in the replay file)
        path = replay_file(prop, sid, ops, vs, 'fields belong to: %s' % ' '.join(sorted(tags)))
        out_lines.append('VIOLATION property=%s replay=%s' % (prop, path))
        nviol += 1
    for kid, (k, sid) in known_hits.items():
        print('KNOWN-FINDING: property=%s %s (%s; e.g. segment %s)' % (prop, k['id'], k['what'], sid))
    # ---- binding self-test (thorough tier of C01): tampered traces must be rejected by the validator
    if prop == 'C01' and tier == 'thorough':
        import selftest
        if selftest.main(seed) != 0:
            print('CHECK-ERROR property=C01 binding self-test failed: a tampered trace was accepted by the validator')
            return 2
    # ---- model checking part
    mc = run_mc(spec.get('mc'), tier, work, prop)
    if mc.get('error'):
        print('CHECK-ERROR property=%s model checking: %s' % (prop, mc['error'][:3000]))
        return 2
    if mc.get('violated'):
        p = os.path.join(lib.BUILD, 'replay'); os.makedirs(p, exist_ok=True)
        path = os.path.join(p, '%s-model.txt' % prop)
        open(path, 'w').write(mc['output'])
        out_lines.append('VIOLATION property=%s replay=%s' % (prop, path))
        nviol += 1
    # ---- C03: inductive invariant of the counting core, unbounded counts / bounds / history (Apalache)
    apalache = None
    if prop == 'C03':
        apalache = run_apalache_ind(work)
        if apalache.get('violated'):
            p = os.path.join(lib.BUILD, 'replay'); os.makedirs(p, exist_ok=True)
            path = os.path.join(p, 'C03-inductive-invariant.txt'); open(path, 'w').write(apalache['output'])
            out_lines.append('VIOLATION property=C03 replay=%s' % path); nviol += 1
    # ---- C17: a tracer installed by one thread serves the calls of every thread (concurrent driver, TSan build)
    xthread_cov = {}
    if prop == 'C17':
        csegs = [(sid, ls) for sid, ls in gen_scripts.gen_conc_segments(240 if tier == 'quick' else 6000, seed, prefix='ctr') if 'pre tracer 1 1' in ls]
        cres = conc_validate(csegs, os.path.join(work, 'conc'), seed) if (os.makedirs(os.path.join(work, 'conc'), exist_ok=True) or True) else []
        cerr = [r['error'] for r in cres if 'error' in r]
        if cerr:
            print('CHECK-ERROR property=C17 concurrent tracer runs: %s' % cerr[0][:1500]); return 2
        cby = dict(csegs)
        seen = set()
        for r in cres:
            for v in r['viol']:
                if 'C17' in v.get('prop', '').split() and v['seg'] not in seen and len(seen) < 5:
                    seen.add(v['seg'])
                    hist = r.get('hist', {}).get(v['seg'], [])
                    path = replay_file('C17', v['seg'], cby.get(v['seg'], []), [v], 'concurrent segment (tracer installed before the threads start); recorded linearization:\n#   ' + '\n#   '.join(hist))
                    out_lines.append('VIOLATION property=C17 replay=%s' % path); nviol += 1
        xthread_cov = dict(cross_thread_tracer=dict(programs=len(csegs), events=sum(r.get('events', 0) for r in cres),
                                                   rule='concurrent programs whose prelude installs a tracer on the main thread; every accepted call of every worker thread must deliver one record to it (validated in the linearization replay)'))
    # ---- "a live expectation matches it": the matcher catalogue through real expectations
    mslice_cov = {}
    if prop in ('C01', 'C02', 'C07'):
        ms = match_slice(prop, work)
        if isinstance(ms, str):
            print('CHECK-ERROR property=%s matcher slice: %s' % (prop, ms[:1500])); return 2
        out_lines += ms[0]; nviol += len(ms[0]); mslice_cov = ms[1]
    if prop in ('C15', 'C17'):
        ps = print_slice(prop, work)
        if isinstance(ps, str):
            print('CHECK-ERROR property=%s printing slice: %s' % (prop, ps[:1500])); return 2
        out_lines += ps[0]; nviol += len(ps[0]); mslice_cov.update(ps[1])
    # ---- C08: "for reference returns, that very object" - the reference-returning members of the C09 family
    refret_cov = {}
    if prop == 'C08':
        try:
            d9 = lib.build_c09(tier)
            w9 = os.path.join(work, 'c09'); os.makedirs(w9, exist_ok=True)
            res9 = c09_observe(d9, w9)
        except lib.BuildError as e:
            res9 = None
            p9 = os.path.join(lib.BUILD, 'replay', 'C08-refreturn-compile.txt'); os.makedirs(os.path.dirname(p9), exist_ok=True); open(p9, 'w').write(str(e))
            out_lines.append('VIOLATION property=C08 replay=%s' % p9); nviol += 1
        if isinstance(res9, str):
            print('CHECK-ERROR property=C08 reference-return family: %s' % res9[:1500]); return 2
        if res9:
            cases9, crash9, by9 = res9
            refc = {cid for cid, c in cases9.items() if c['mode'] in ('lref', 'clref', 'ccref') and c['kind'] != 'throw'}
            if crash9:
                p9 = os.path.join(lib.BUILD, 'replay', 'C08-refreturn-crash.txt'); open(p9, 'w').write(crash9)
                out_lines.append('VIOLATION property=C08 replay=%s' % p9); nviol += 1
            for cid in sorted(set(by9) & refc)[:5]:
                p9 = os.path.join(lib.BUILD, 'replay', 'C08-refreturn-case%d.txt' % cid)
                open(p9, 'w').write('case %s (see %s/c09_%d.cpp, function case_%d): a reference result must be the very object the RETURN expression denotes\n%s\n' % (
                    json.dumps(cases9[cid]), d9, cid % 16, cid, '\n'.join(json.dumps(v) for v in by9[cid])))
                out_lines.append('VIOLATION property=C08 replay=%s' % p9); nviol += 1
            refret_cov = dict(reference_returns=dict(cases=len(refc), rule='members of the C09 family whose mock function returns int& / int const& / CC const& from RETURN(_i): the result is the caller\'s object, no copy is made'))
    # ---- the repository's own tests (self_test, thread_terror) with hooks, validated against Generic.tla
    suite_cov = {}
    if prop in SUITE_PROPS:
        sn, slines, suite_cov = suite_violations(prop, tier, seed)
        if sn is None:
            print(slines[0]); return 2
        out_lines += slines; nviol += sn
    for l in out_lines[:20]:
        print(l)
    # ---- evidence
    nontriv = {}
    for sid, ops in segs:
        s = stats.get(sid)
        if s and s['acc'] >= 1 and (s['reps'] >= 1 or s['rej'] >= 1):
            nontriv[seg_hash(ops)] = sid
    sample_ids = [sid for sid, _ in segs[:2]]
    samples = [dict(segment=sid, ops=by_id[sid][:40]) for sid in sample_ids]
    cov = dict(states=mc.get('distinct', 0), transitions=mc.get('generated', 0),
               traces_validated_against_impl=len(segs), events=events,
               evaluations=len(segs), distinct_nontrivial=len(nontriv),
               rule='segments = op scripts drawn by the seeded generator profiles %s (plus fixed witness scripts); '
                    'non-trivial = distinct op script (sha1) whose recorded trace has >=1 accepted call and >=1 report or rejected call'
                    % [p[0] for p in spec['profiles']],
               samples=samples, model_checking=mc.get('summary', {}), exhaustive=False,
               sanitizers='ASan+UBSan+LSan, TROMPELOEIL_SANITY_CHECKS', tree=lib.tree_hash())
    cov.update(suite_cov)
    cov.update(xthread_cov)
    cov.update(refret_cov)
    cov.update(mslice_cov)
    if apalache:
        cov['inductive_invariant'] = {k: v for k, v in apalache.items() if k != 'output'}
    if exhaustive_note:
        cov['exhaustive_subspaces'] = exhaustive_note
    if td_mc:
        cov['teardown_orders_generated_by_TLC'] = td_mc
        cov['states'] = cov.get('states', 0) + sum(x['distinct'] for x in td_mc)
        cov['transitions'] = cov.get('transitions', 0) + sum(x['generated'] for x in td_mc)
    if not mc.get('distinct'):
        cov.pop('states'); cov.pop('transitions')
    lib.write_evidence(prop, tier, seed, 'model_checking', cov, time.time() - t0, nviol, ASSUMPTIONS_CORE)
    shutil.rmtree(work, ignore_errors=True)
    log('%s %s: %d segments, %d events, %d non-trivial, %d violations, mc=%s, %.0fs' % (
        prop, tier, len(segs), events, len(nontriv), nviol, mc.get('summary'), time.time() - t0))
    return 1 if nviol else 0

def teardown_segments(tier, seed):
    """C14, spec -> code: every order of the destroy / move ops of MCTeardown's populations, generated by TLC"""
    import re, random
    out = []
    mc = []
    spec_hash = lib.sha_files([os.path.join(lib.SPEC, f) for f in ('MCTeardown.tla', 'Core.tla', 'Shapes.tla')])
    for pop in (1, 2, 3, 4):
        cache = os.path.join(lib.BUILD, 'teardown-%s-P%d.json' % (spec_hash, pop))
        if not os.path.exists(cache):
            work = os.path.join(lib.BUILD, 'work-teardown-%d-%d' % (pop, os.getpid()))
            os.makedirs(work, exist_ok=True)
            rc, o = lib.tlc('MCTeardown.tla', 'MCTeardown_%d.cfg' % pop, work, workers=1, timeout=1500, java_opts='-Xmx8g')
            shutil.rmtree(work, ignore_errors=True)
            if rc != 0 or 'No error has been found' not in o:
                raise RuntimeError('TLC on MCTeardown population %d failed rc=%d: %s' % (pop, rc, o[-1500:]))
            scripts = []
            for line in o.splitlines():
                m = re.match(r'<<"SCRIPT", "(.*)">>$', line.strip())
                if m:
                    evs = json.loads(m.group(1).replace('\\"', '"'))
                    scripts.append([e['e'] + ' ' + ' '.join(str(x) for x in e['a']) for e in evs])
            json.dump(dict(scripts=scripts, stats=lib.tlc_stats(o)), open(cache, 'w'))
        d = json.load(open(cache))
        mc.append(dict(population=pop, behaviours=len(d['scripts']), **d['stats']))
        scripts = d['scripts']
        if tier == 'quick':
            rnd = random.Random(seed * 31 + pop)
            keep = 600 if pop != 3 else 800
            if len(scripts) > keep:
                scripts = rnd.sample(scripts, keep)
        for i, ops in enumerate(scripts):
            out.append(('td-P%d-%d' % (pop, i), ops))
    return out, mc

def run_apalache_ind(work):
    """spec/apalache/CountInd.tla: Init => IndInv (length 0) and IndInv /\\ Next => IndInv' (length 1 from IndInv)"""
    import subprocess
    res = dict(tool='apalache-mc 0.58', spec='spec/apalache/CountInd.tla', obligations=2, discharged=0)
    src = os.path.join(lib.SPEC, 'apalache', 'CountInd.tla')
    d = os.path.join(work, 'apalache'); os.makedirs(d, exist_ok=True)
    shutil.copy(src, d)
    for init, length in (('Init', 0), ('IndInv', 1)):
        try:
            p = subprocess.run(['timeout', '600', 'apalache-mc', 'check', '--cinit=CInit', '--init=' + init, '--inv=IndInv', '--length=%d' % length,
                                '--out-dir=' + os.path.join(d, 'out'), 'CountInd.tla'], cwd=d, stdout=subprocess.PIPE, stderr=subprocess.STDOUT, text=True)
        except Exception as e:
            res['note'] = 'apalache could not be run: %s' % e
            return res
        if 'The outcome is: NoError' in p.stdout:
            res['discharged'] += 1
        elif 'The outcome is: Error' in p.stdout:
            res['violated'] = True; res['output'] = p.stdout[-6000:]
            return res
        else:
            res['note'] = 'apalache did not finish (%s): not counted' % p.stdout[-200:].replace('\n', ' ')
            return res
    return res

def fixed_segments(prop):
    """fixed witness scripts: harness/witness/<prop>*.script"""
    d = os.path.join(lib.HARNESS, 'witness')
    out = []
    if os.path.isdir(d):
        for f in sorted(os.listdir(d)):
            if f.endswith('.script') and (f.startswith(prop) or f.startswith('ALL')):
                cur = None
                for line in open(os.path.join(d, f)):
                    line = line.strip()
                    if not line or line.startswith('#'):
                        continue
                    if line.startswith('seg '):
                        cur = (line[4:], []); out.append(cur)
                    elif cur:
                        cur[1].append(line)
    return out

# as-is configurations: the model with a pinned-code deviation switched on MUST violate its property
# (sensitivity / non-vacuity of the invariants); run in the thorough tier
MC_SENSITIVITY = {
    'C05': ['MC_C05_asisD1'],
    'C06': ['MC_C05_asisD1'],
    'C16': ['MC_C16_asisD4'],
    'C12': ['MCConc_asis', 'MCConc_asis_lin', 'MCConc_asis_D17'],
}

def run_mc(stems, tier, work, prop=None):
    """TLC on spec/<stem>.cfg (quick) or spec/<stem>_thorough.cfg if present; several stems are summed"""
    if not stems:
        return {}
    if isinstance(stems, str):
        stems = [stems]
    total = dict(distinct=0, generated=0, summary=dict(configs=[]))
    for stem in stems:
        r = run_mc_one(stem, tier, work)
        if r.get('error') or r.get('violated'):
            return r
        if r:
            total['distinct'] += r['distinct']; total['generated'] += r['generated']
            total['summary']['configs'].append(r['summary'])
    if tier == 'thorough' and prop in MC_SENSITIVITY:
        for stem in MC_SENSITIVITY[prop]:
            r = run_mc_one(stem, 'quick', work)
            if not r.get('violated'):
                return dict(error='sensitivity configuration %s (pinned-code deviation switched on) is NOT rejected by the model: %s' % (stem, r))
            total['summary']['configs'].append(dict(config=stem + '.cfg', expected='violation', got='violation'))
    return total

def run_mc_one(stem, tier, work):
    cfg = stem + ('_thorough.cfg' if tier == 'thorough' and os.path.exists(os.path.join(lib.SPEC, stem + '_thorough.cfg')) else '.cfg')
    if not os.path.exists(os.path.join(lib.SPEC, cfg)):
        return {}
    mod = open(os.path.join(lib.SPEC, cfg)).readline().strip().lstrip('\\* ').strip() or 'MCCore.tla'
    t = time.time()
    rc, out = lib.tlc(mod, cfg, work, workers=lib.NCPU, timeout=3000 if tier == 'thorough' else 600,
                      java_opts='-Xmx24g' if tier == 'thorough' else '-Xmx8g')
    st = lib.tlc_stats(out)
    if rc == 0 and 'No error has been found' in out:
        return dict(distinct=st['distinct'], generated=st['generated'],
                    summary=dict(config=cfg, module=mod, distinct=st['distinct'], generated=st['generated'], depth=st['depth'],
                                 wall_s=round(time.time() - t, 1)))
    if 'is violated' in out or 'The first argument of Assert evaluated to FALSE' in out:
        return dict(violated=True, output=out[-8000:], distinct=st['distinct'], generated=st['generated'])
    return dict(error='TLC rc=%d: %s' % (rc, out[-2000:]))

for _p in CORE:
    REGISTRY[_p] = run_core

# ---------------------------------------------------------------- C10 / C11: matchers

def run_match(prop, tier, seed, t0):
    what = 'scalar' if prop == 'C10' else 'range'
    work = os.path.join(lib.BUILD, 'work-%s-%d' % (prop, os.getpid()))
    shutil.rmtree(work, ignore_errors=True)
    os.makedirs(work)
    nviol, out_lines, skip = 0, [], set()
    if what == 'range':
        import gen_match
        prs = gen_match.probes()
        res = lib.probe_compile([p[2] for p in prs], os.path.join(work, 'probes'))
        for (k, desc, expr), (ok, out) in zip(prs, res):
            if not ok:
                rp = os.path.join(lib.BUILD, 'replay'); os.makedirs(rp, exist_ok=True)
                path = os.path.join(rp, '%s-compile-%s-%s.txt' % (prop, k, desc.replace(' ', '_')))
                open(path, 'w').write('documented legal form does not compile (%s): %s\n\n%s\n' % (desc, expr, out[-3000:]))
                out_lines.append('VIOLATION property=%s replay=%s' % (prop, path))
                nviol += 1
                if 'single element' in desc:
                    skip.add(k)
    d = lib.build_match(what, tier, seed, tuple(sorted(skip)))
    raw = os.path.join(work, 'out.ndjson')
    import subprocess
    p = subprocess.run(['timeout', '1800', os.path.join(d, 'drv_match'), raw], stdout=subprocess.PIPE, stderr=subprocess.STDOUT, text=True)
    cat = {c['id']: c for c in json.load(open(os.path.join(d, 'catalogue.json')))}
    crashed = p.returncode != 0
    # merge catalogue into the recorded verdicts, split into chunks for parallel validation
    lines = []
    if os.path.exists(raw):
        for l in open(raw):
            try:
                x = json.loads(l)
            except Exception:
                continue
            c = cat[x['id']]
            if 'desc' in x:
                import re as _re
                md = _re.fullmatch(r'\s*(==|!=|<=|>=|<|>)\s*(-?\d+)\s*', x['desc'])
                if md:       # an unknown wording of the description is not judged
                    lines.append(json.dumps(dict(id=x['id'], kind='desc', term=c['term'], x=dict(n=0, v=0, f=[0, 0], found=0), res=0,
                                                 dop={'==': 'eq', '!=': 'ne', '<': 'lt', '<=': 'le', '>': 'gt', '>=': 'ge'}[md.group(1)], dv=int(md.group(2)))))
                continue
            lines.append(json.dumps(dict(id=x['id'], kind='scalar' if what == 'scalar' else 'range', term=c['term'], x=x['x'], res=x['res'])))
    if crashed:
        last = json.loads(lines[-1])['id'] if lines else -1
        path = os.path.join(lib.BUILD, 'replay'); os.makedirs(path, exist_ok=True)
        path = os.path.join(path, '%s-crash.txt' % prop)
        open(path, 'w').write('matcher driver crashed (rc=%d) after term id %d: %s\nnext term: %s\n%s\n' % (
            p.returncode, last, cat.get(last, {}).get('cpp'), cat.get(last + 1, {}).get('cpp'), p.stdout[-2000:]))
        out_lines.append('VIOLATION property=%s replay=%s' % (prop, path))
        nviol += 1
    nchunk = max(1, min(lib.NCPU, len(lines) // 20000 + 1))
    chunks = [lines[i::nchunk] for i in range(nchunk)]
    def one(i):
        pth = os.path.join(work, 'n%d.ndjson' % i)
        open(pth, 'w').write('\n'.join(chunks[i]) + '\n')
        return lib.validate_generic('TraceMatchers.tla', 'TraceMatchers.cfg', pth, work, 'v%d' % i)
    import concurrent.futures as cf
    with cf.ThreadPoolExecutor(lib.NCPU) as ex:
        res = list(ex.map(one, range(nchunk)))
    errs = [r['error'] for r in res if 'error' in r]
    if errs:
        print('CHECK-ERROR property=%s %s' % (prop, errs[0][:2000])); return 2
    viols = [v for r in res for v in r['viol']]
    if viols:
        by_id = {}
        for v in viols:
            by_id.setdefault(v['id'], []).append(v)
        rp = os.path.join(lib.BUILD, 'replay'); os.makedirs(rp, exist_ok=True)
        for tid, vs in list(by_id.items())[:10]:
            path = os.path.join(rp, '%s-term%d.txt' % (prop, tid))
            open(path, 'w').write('matcher expression: %s\nabstract term: %s\nverdicts that contradict spec/Matchers.tla:\n%s\n' % (
                cat[tid]['cpp'], json.dumps(cat[tid]['term']), '\n'.join(json.dumps(v) for v in vs)))
            out_lines.append('VIOLATION property=%s replay=%s' % (prop, path))
            nviol += 1
    mc = run_mc('MCMatchers', tier, work)
    if mc.get('error'):
        print('CHECK-ERROR property=%s model checking: %s' % (prop, mc['error'][:2000])); return 2
    if mc.get('violated'):
        path = os.path.join(lib.BUILD, 'replay', '%s-model.txt' % prop)
        os.makedirs(os.path.dirname(path), exist_ok=True)
        open(path, 'w').write(mc['output'])
        out_lines.append('VIOLATION property=%s replay=%s' % (prop, path)); nviol += 1
    for l in out_lines:
        print(l)
    # evidence: distinct non-trivial = distinct (term) whose recorded verdicts include both accept and reject
    both = {}
    for l in lines:
        x = json.loads(l)
        both.setdefault(x['id'], set()).add(x['res'])
    nontriv = sum(1 for v in both.values() if len(v) == 2)
    cov = dict(states=mc.get('distinct', 0), transitions=mc.get('generated', 0), traces_validated_against_impl=len(cat),
               evaluations=len(lines), distinct_nontrivial=nontriv,
               rule='every catalogue term (real matcher expression) is evaluated through a real ALLOW_CALL / param_matches against every subject value; '
                    'non-trivial = distinct term with both an accepted and a rejected subject',
               samples=[dict(cpp=cat[i]['cpp'], term=cat[i]['term']) for i in list(cat)[:3]] + [json.loads(l) for l in lines[:2]],
               model_checking=mc.get('summary', {}), exhaustive=(tier == 'thorough'), terms=len(cat), tree=lib.tree_hash())
    lib.write_evidence(prop, tier, seed, 'model_checking', cov, time.time() - t0, nviol,
                       ['strings are represented by their rank in the ordered test alphabet', 're(): `found` comes from an independent std::regex_search',
                        'overlapping element matchers: any verdict of a greedy one-pass assignment is accepted (docs: "may or may not match")',
                        'TLC and the JSON module are trusted'])
    shutil.rmtree(work, ignore_errors=True)
    log('%s %s: %d terms, %d verdicts, %d non-trivial, %d violations, %.0fs' % (prop, tier, len(cat), len(lines), nontriv, nviol, time.time() - t0))
    return 1 if nviol else 0

REGISTRY['C10'] = run_match
REGISTRY['C11'] = run_match

# ---------------------------------------------------------------- C18: value printing

def _A(k, v=0, s='', c=()):
    return {'k': k, 'v': v, 's': s, 'c': list(c)}
_I = lambda n: _A('int', n)
_EMB = {-1: ('No match for call of fi with signature void(int) with.\n  param  _1 == ', _I(255), '\n'),
        -2: ('No match for call of fv with signature void(std::vector<int> const&) with.\n  param  _1 == ', _A('coll', 0, '', [_I(1), _I(255)]), '\n'),
        -3: ('No match for call of fp with signature void(int*) with.\n  param  _1 == ', _A('null'), '\n'),
        -4: ('No match for call of fo with signature void(Op<9> const&) with.\n  param  _1 == ', _A('opaque', 9), '\n'),
        -5: ('m.fv(trompeloeil::_) with.\n  param  _1 == ', _A('coll', 0, '', [_I(7), _I(8)]), '\n'),
        -6: ('m.fp(trompeloeil::_) with.\n  param  _1 == ', _A('null'), '\n')}

def print_observe(tier, work):
    """run the value printing driver and judge every record by Printing.tla; (cat, n, crash text or None, {value id: [violations]}) or error string"""
    import subprocess
    d = lib.build_print(tier)
    raw = os.path.join(work, 'out.ndjson')
    env = dict(os.environ); env.update(lib.SAN_ENV)
    p = subprocess.run(['timeout', '900', os.path.join(d, 'drv_print'), raw], env=env, stdout=subprocess.PIPE, stderr=subprocess.STDOUT, text=True)
    cat = {c['id']: c for c in json.load(open(os.path.join(d, 'catalogue.json')))}
    crash = None
    if p.returncode != 0:
        crash = 'print driver failed rc=%d (null dereference / sanitizer report while printing?)\n%s\n' % (p.returncode, p.stdout[-4000:])
    norm = os.path.join(work, 'norm.ndjson')
    n = 0
    with open(norm, 'w') as g:
        for l in open(raw) if os.path.exists(raw) else []:
            try:
                x = json.loads(l)
            except Exception:
                continue
            n += 1
            if x['id'] < 0:
                pre, val, suf = _EMB[x['id']]
                out = x['out']
                if not out.startswith(pre):      # the report / trace wording differs from the one known here: judge the printed value only
                    cut = out.rfind('== ')
                    pre, out = '', (out[cut + 3:] if cut >= 0 else out)
                g.write(json.dumps(dict(id=x['id'], kind='embed', pre=pre, val=val, suf=suf, out=out)) + '\n')
            else:
                g.write(json.dumps(dict(id=x['id'], kind='print', val=cat[x['id']]['val'], before=x['before'], after=x['after'],
                                        out=x['out'], bytes=x['bytes'])) + '\n')
    r = lib.validate_generic('TracePrinting.tla', 'TracePrinting.cfg', norm, work, 'v')
    if 'error' in r:
        return r['error']
    by_id = {}
    for v in r['viol']:
        by_id.setdefault(v['id'], []).append(v)
    return cat, n, crash, by_id

def print_slice(prop, work):
    """C15 / C17: reports and trace records print every actual argument - the value catalogue is judged in those checks too"""
    w = os.path.join(work, 'pslice'); os.makedirs(w, exist_ok=True)
    try:
        res = print_observe('quick', w)
    except lib.BuildError as e:
        return 'value printing driver does not build: %s' % str(e)[:1500]
    if isinstance(res, str):
        return res
    cat, n, crash, by_id = res
    rp = os.path.join(lib.BUILD, 'replay'); os.makedirs(rp, exist_ok=True)
    out = []
    if crash:
        path = os.path.join(rp, '%s-printing-crash.txt' % prop); open(path, 'w').write(crash)
        out.append('VIOLATION property=%s replay=%s' % (prop, path))
    for vid, vs in list(by_id.items())[:3]:
        path = os.path.join(rp, '%s-printed-value%d.txt' % (prop, vid))
        open(path, 'w').write('an argument value as a report / trace record prints it: %s\nmismatches against spec/Printing.tla:\n%s\n' % (
            json.dumps(cat.get(vid, {'cpp': 'embedded in report/trace %d' % vid})), '\n'.join(json.dumps(v) for v in vs)))
        out.append('VIOLATION property=%s replay=%s' % (prop, path))
    return out, dict(printed_values=dict(values=len(cat), events=n, rule='the C18 quick value catalogue (direct, through std::cref / std::ref, embedded in real reports and trace records) judged by Printing!Render'))

def run_print(prop, tier, seed, t0):
    work = os.path.join(lib.BUILD, 'work-%s-%d' % (prop, os.getpid()))
    shutil.rmtree(work, ignore_errors=True); os.makedirs(work)
    nviol, out_lines = 0, []
    rp = os.path.join(lib.BUILD, 'replay'); os.makedirs(rp, exist_ok=True)
    res = print_observe(tier, work)
    if isinstance(res, str):
        print('CHECK-ERROR property=C18 %s' % res[:2000]); return 2
    cat, n, crash, by_id = res
    if crash:
        path = os.path.join(rp, 'C18-crash.txt'); open(path, 'w').write(crash)
        out_lines.append('VIOLATION property=C18 replay=%s' % path); nviol += 1
    for vid, vs in list(by_id.items())[:10]:
        path = os.path.join(rp, 'C18-value%d.txt' % vid)
        open(path, 'w').write('value: %s\nmismatches against spec/Printing.tla:\n%s\n' % (
            json.dumps(cat.get(vid, {'cpp': 'embedded in report/trace %d' % vid})), '\n'.join(json.dumps(v) for v in vs)))
        out_lines.append('VIOLATION property=C18 replay=%s' % path); nviol += 1
    for l in out_lines:
        print(l)
    cov = dict(states=n + 2, transitions=n + 1, traces_validated_against_impl=len(cat) + len(_EMB), evaluations=n,
               distinct_nontrivial=len([c for c in cat.values() if c['val']['k'] in ('coll', 'opaque', 'null')]),
               rule='every catalogue value is printed with trompeloeil::print under every prior stream state (base x fill x width x adjust); '
                    'output and stream state after are compared with spec/Printing.tla by TLC; non-trivial = distinct composite, opaque or null value',
               samples=[dict(type=cat[i]['type'], cpp=cat[i]['cpp'], val=cat[i]['val']) for i in list(cat)[:3]],
               exhaustive=True, values=len(cat), tree=lib.tree_hash(),
               explanation='TLC evaluates Render / the state law on every recorded event; there is no separate bounded model for C18')
    lib.write_evidence(prop, tier, seed, 'model_checking', cov, time.time() - t0, nviol,
                       ['padding of braces / nullptr under a non-zero width and flags seen by user printers are unspecified and not compared',
                        'opaque test objects have bytes given by a formula known to the spec (also compared with the bytes the driver read)'])
    shutil.rmtree(work, ignore_errors=True)
    log('C18 %s: %d values, %d events, %d violations, %.0fs' % (tier, len(cat), n, nviol, time.time() - t0))
    return 1 if nviol else 0

REGISTRY['C18'] = run_print

import c19
REGISTRY['C19'] = c19.run_c19

# ---------------------------------------------------------------- C20: mocked coroutines

def _norm_coro(raw, norm):
    n = 0
    with open(raw) as f, open(norm, 'w') as g:
        for line in f:
            try:
                d = json.loads(line)
            except Exception:
                continue
            e = d['e']
            if e == 'seg':
                o = dict(e='Seg', id=d['id'])
            elif e == 'endseg':
                o = dict(e='EndSeg', id=d['id'], exit=d['exit'], sig=d['sig'], san=d['san'][:300])
            elif e == 'fin':
                o = dict(e='Fin')
            elif e == 'terminate':
                o = dict(e='Terminate')
            else:
                reps = []
                for r in d['reps']:
                    m = r['msg']
                    kind = ('nomatch' if m.startswith('No match for call') else 'unfulfilled' if m.startswith('Unfulfilled expectation')
                            else 'forbidden' if m.startswith('Match of forbidden') else 'other')
                    reps.append(dict(sev=r['sev'], kind=kind))
                o = dict(e=e, a=d['a'], skip=d['skip'], acc=d['acc'], thr=d['thr'], reps=reps, noks=d['noks'], cl=d['cl'], ist=d['ist'], fl=d['fl'])
            g.write(json.dumps(o, separators=(',', ':')) + '\n'); n += 1
    return n

def run_coro(prop, tier, seed, t0):
    import subprocess, gen_coro
    import concurrent.futures as cf
    work = os.path.join(lib.BUILD, 'work-%s-%d' % (prop, os.getpid()))
    shutil.rmtree(work, ignore_errors=True); os.makedirs(work)
    rp = os.path.join(lib.BUILD, 'replay'); os.makedirs(rp, exist_ok=True)
    nviol, out_lines, skip = 0, [], set()
    known = lib.load_known()
    # 1. documented legal forms must compile
    prs = gen_coro.probes()
    jobs = []
    for i, (k, r, desc, stmt) in enumerate(prs):
        src = os.path.join(work, 'p%d.cpp' % i)
        open(src, 'w').write('#include "crt.hpp"\nusing namespace cdrv;\nvoid probe_f() { %s }\n' % stmt)
        jobs.append((['g++', '-std=c++20', '-fsyntax-only', '-I' + lib.INCLUDE, '-I' + os.path.join(lib.HARNESS, 'corodrv'),
                      '-I' + os.path.join(lib.HARNESS, 'coro'), src], work))
    for (k, r, desc, stmt), (rc, out) in zip(prs, lib.compile_many(jobs)):
        if rc != 0:
            skip.add((k, r))
            v = dict(field='compile', prop='C20', got=desc)
            ks = [kf for kf in known.get('open', []) if known_match(kf, prop, v, [])]
            if ks:
                continue
            path = os.path.join(rp, 'C20-compile-kind%d-retk%d.txt' % (k, r))
            open(path, 'w').write('documented legal form does not compile: %s\n%s\n\n%s\n' % (desc, stmt, out[-3000:]))
            if not any(path in l for l in out_lines):
                out_lines.append('VIOLATION property=C20 replay=%s' % path); nviol += 1
    for kf in known.get('open', []):
        if 'C20' in kf.get('property', []) and kf.get('match', {}).get('field') == 'compile' and any(kf['match'].get('got_contains', '\0') in p[2] for p in prs if (p[0], p[1]) in skip):
            print('KNOWN-FINDING: property=C20 %s (%s)' % (kf['id'], kf['what']))
    d = lib.build_coro(tuple(sorted(skip)))
    # 2. conformance
    nseg = 600 if tier == 'quick' else 40000
    segs = gen_scripts.gen_coro_segments(nseg, seed, skip) + fixed_segments('C20')
    by_id = dict(segs)
    nch = lib.NCPU
    chunks = [segs[i::nch] for i in range(nch)]
    env = dict(os.environ); env.update(lib.SAN_ENV)
    def one(i):
        if not chunks[i]:
            return dict(viol=[], events=0)
        script = os.path.join(work, 'c%d.script' % i); raw = os.path.join(work, 'c%d.raw' % i); norm = os.path.join(work, 'c%d.ndjson' % i)
        gen_scripts.write_script(script, chunks[i])
        p = subprocess.run(['timeout', '1800', os.path.join(d, 'drv_coro'), script, raw], env=env, stdout=subprocess.PIPE, stderr=subprocess.STDOUT, text=True)
        if p.returncode != 0:
            return dict(error='driver rc=%d %s' % (p.returncode, p.stdout[-400:]))
        n = _norm_coro(raw, norm)
        r = lib.validate_generic('TraceCoro.tla', 'TraceCoro.cfg', norm, work, 'v%d' % i)
        r['events'] = n
        return r
    with cf.ThreadPoolExecutor(lib.NCPU) as ex:
        res = list(ex.map(one, range(nch)))
    errs = [r['error'] for r in res if 'error' in r]
    if errs:
        print('CHECK-ERROR property=C20 %s' % errs[0][:2000]); return 2
    viols = [v for r in res for v in r['viol']]
    by_seg = {}
    for v in viols:
        v.setdefault('prop', 'C20 C14')
        ks = [kf for kf in known.get('open', []) if known_match(kf, prop, v, by_id.get(v['seg'], []))]
        if ks:
            print('KNOWN-FINDING: property=C20 %s (%s; segment %s)' % (ks[0]['id'], ks[0]['what'], v['seg']))
            continue
        by_seg.setdefault(v['seg'], []).append(v)
    for sid, vs in list(by_seg.items())[:10]:
        path = replay_file('C20', sid, by_id.get(sid, []), vs, 'replay with: build/coro-*/drv_coro <this file> out.ndjson')
        out_lines.append('VIOLATION property=C20 replay=%s' % path); nviol += 1
    nviol += max(0, len(by_seg) - 10)
    mc = run_mc('MCCoro', tier, work)
    if mc.get('error'):
        print('CHECK-ERROR property=C20 model checking: %s' % mc['error'][:2000]); return 2
    if mc.get('violated'):
        path = os.path.join(rp, 'C20-model.txt'); open(path, 'w').write(mc['output'])
        out_lines.append('VIOLATION property=C20 replay=%s' % path); nviol += 1
    for l in out_lines:
        print(l)
    events = sum(r.get('events', 0) for r in res)
    nontriv = len({seg_hash(ops) for sid, ops in segs if sum(1 for o in ops if o.startswith('resume')) >= 2 and any(o.startswith('ccall') for o in ops)})
    cov = dict(states=mc.get('distinct', 0), transitions=mc.get('generated', 0), traces_validated_against_impl=len(segs), events=events,
               evaluations=len(segs), distinct_nontrivial=nontriv,
               rule='seeded random op scripts over {create coroutine expectation (5 coroutine kinds, 0..3 CO_YIELD, CO_RETURN / CO_THROW / throwing clause), call, resume, destroy instance, release}; '
                    'non-trivial = distinct script with a call and >= 2 resumptions; legal clause combinations are compile-probed first',
               samples=[dict(segment=s, ops=o[:30]) for s, o in segs[:2]], model_checking=mc.get('summary', {}), exhaustive=False,
               sanitizers='ASan (detect_stack_use_after_return=1) + UBSan, C++20', probes=len(prs), tree=lib.tree_hash())
    if not mc.get('distinct'):
        cov.pop('states'); cov.pop('transitions')
    lib.write_evidence(prop, tier, seed, 'model_checking', cov, time.time() - t0, nviol,
                       ['mock functions of arity 0 only (known finding D12: clauses evaluated after the call returned read the dead parameter tuple for arity >= 1)',
                        'an expectation is not released while coroutines it produced are unfinished (proviso of the property)',
                        "own minimal coroutine types (harness/coro/mini_coro.hpp): eager/lazy value task with yield_value, lazy generator (input range), eager/lazy void task"])
    shutil.rmtree(work, ignore_errors=True)
    log('C20 %s: %d segments, %d events, %d violations, mc=%s, %.0fs' % (tier, len(segs), events, nviol, mc.get('summary'), time.time() - t0))
    return 1 if nviol else 0

REGISTRY['C20'] = run_coro

# ---------------------------------------------------------------- C09: parameter binding and capture

_C09_FIELDS = ['plain_w', 'lr_w', 'addr_w', 'value_w', 'plain_s', 'lr_s', 'addr_s', 'stable_s', 'value_s', 'stable_r', 'retal', 'copies', 'wrote']

def match_slice(prop, work):
    """C01 / C02 / C07 depend on "matches": the scalar matcher catalogue (quick size; driver shared with C10) is judged here too.
    Returns (violation lines, coverage dict) or an error string."""
    import subprocess
    w = os.path.join(work, 'mslice'); os.makedirs(w, exist_ok=True)
    try:
        d = lib.build_match('scalar', 'quick', 1, ())
    except lib.BuildError as e:
        return 'matcher catalogue does not build: %s' % str(e)[:1500]
    raw = os.path.join(w, 'out.ndjson')
    p = subprocess.run(['timeout', '1800', os.path.join(d, 'drv_match'), raw], stdout=subprocess.PIPE, stderr=subprocess.STDOUT, text=True)
    cat = {c['id']: c for c in json.load(open(os.path.join(d, 'catalogue.json')))}
    lines, out = [], []
    for l in open(raw) if os.path.exists(raw) else []:
        try:
            x = json.loads(l)
        except Exception:
            continue
        if 'desc' in x:
            continue
        lines.append(json.dumps(dict(id=x['id'], kind='scalar', term=cat[x['id']]['term'], x=x['x'], res=x['res'])))
    rp = os.path.join(lib.BUILD, 'replay'); os.makedirs(rp, exist_ok=True)
    if p.returncode != 0:
        path = os.path.join(rp, '%s-matchers-crash.txt' % prop); open(path, 'w').write('matcher driver crashed rc=%d\n%s\n' % (p.returncode, p.stdout[-2000:]))
        out.append('VIOLATION property=%s replay=%s' % (prop, path))
    pth = os.path.join(w, 'n.ndjson'); open(pth, 'w').write('\n'.join(lines) + '\n')
    r = lib.validate_generic('TraceMatchers.tla', 'TraceMatchers.cfg', pth, w, 'v')
    if 'error' in r:
        return r['error']
    by_id = {}
    for v in r['viol']:
        by_id.setdefault(v['id'], []).append(v)
    for tid, vs in list(by_id.items())[:3]:
        path = os.path.join(rp, '%s-matcher-term%d.txt' % (prop, tid))
        open(path, 'w').write('an expectation whose parameter matcher is %s accepts / rejects calls against spec/Matchers.tla (abstract term %s):\n%s\n' % (
            cat[tid]['cpp'], json.dumps(cat[tid]['term']), '\n'.join(json.dumps(v) for v in vs)))
        out.append('VIOLATION property=%s replay=%s' % (prop, path))
    return out, dict(matcher_catalogue=dict(terms=len(cat), verdicts=len(lines), rule='every scalar matcher term of the C10 quick catalogue through a real expectation, judged by Matchers!Acc'))

def c09_observe(d, work):
    """run the built C09 family and judge every case by Binding!Expect; returns (cases, crash_text or None, {case id: [violations]}) or error string"""
    import subprocess
    raw = os.path.join(work, 'out.ndjson')
    env = dict(os.environ); env.update(lib.SAN_ENV)
    p = subprocess.run(['timeout', '900', os.path.join(d, 'drv_c09'), raw], env=env, stdout=subprocess.PIPE, stderr=subprocess.STDOUT, text=True)
    cases = {c['id']: c for c in json.load(open(os.path.join(d, 'cases.json')))}
    crash = None
    if p.returncode != 0:
        crash = 'driver failed rc=%d\n%s\n' % (p.returncode, p.stdout[-4000:])
    obs = {cid: dict(vals={}, counts={}, reports=0) for cid in cases}
    cur = None
    for l in open(raw) if os.path.exists(raw) else []:
        try:
            x = json.loads(l)
        except Exception:
            continue
        if x['id'] < 0:
            if cur is not None:
                obs[cur]['reports'] += 1
            continue
        cur = x['id']
        f = _C09_FIELDS[x['f']]
        obs[cur]['vals'][f] = x['v']
        obs[cur]['counts'][f] = obs[cur]['counts'].get(f, 0) + 1
    norm = os.path.join(work, 'norm.ndjson')
    with open(norm, 'w') as g:
        for cid, c in cases.items():
            o = obs[cid]
            once = 1 if all(o['counts'].get(f, 0) == 1 for f in ('plain_s', 'lr_s')) and all(o['counts'].get(f, 1) == 1 for f in ('addr_s', 'value_s', 'stable_s', 'stable_r')) else 0
            g.write(json.dumps(dict(id=cid, n=c['n'], i=c['i'], mode=c['mode'], kind=c['kind'], reports=o['reports'], once=once,
                                    obs={f: o['vals'].get(f, -1) for f in _C09_FIELDS})) + '\n')
    r = lib.validate_generic('TraceBinding.tla', 'TraceBinding.cfg', norm, work, 'v')
    if 'error' in r:
        return r['error']
    by_id = {}
    for v in r['viol']:
        by_id.setdefault(v['id'], []).append(v)
    return cases, crash, by_id

def run_c09(prop, tier, seed, t0):
    import subprocess
    work = os.path.join(lib.BUILD, 'work-%s-%d' % (prop, os.getpid()))
    shutil.rmtree(work, ignore_errors=True); os.makedirs(work)
    rp = os.path.join(lib.BUILD, 'replay'); os.makedirs(rp, exist_ok=True)
    nviol, out_lines = 0, []
    try:
        d = lib.build_c09(tier)
    except lib.BuildError as e:
        # every member of the family is a documented legal use of the public macros: not compiling IS the violation
        path = os.path.join(rp, 'C09-compile.txt'); open(path, 'w').write(str(e))
        print('VIOLATION property=C09 replay=%s' % path)
        lib.write_evidence(prop, tier, seed, 'model_checking', dict(evaluations=1, distinct_nontrivial=2, rule='family failed to compile', samples=['compile']),
                           time.time() - t0, 1, [])
        return 1
    res = c09_observe(d, work)
    if isinstance(res, str):
        print('CHECK-ERROR property=C09 %s' % res[:2000]); return 2
    cases, crash, by_id = res
    if crash:
        path = os.path.join(rp, 'C09-crash.txt'); open(path, 'w').write(crash)
        out_lines.append('VIOLATION property=C09 replay=%s' % path); nviol += 1
    for cid, vs in list(by_id.items())[:10]:
        path = os.path.join(rp, 'C09-case%d.txt' % cid)
        open(path, 'w').write('case %s (see %s/c09_%d.cpp, function case_%d)\nmismatches against spec/Binding.tla Expect:\n%s\n' % (
            json.dumps(cases[cid]), d, cid % 16, cid, '\n'.join(json.dumps(v) for v in vs)))
        out_lines.append('VIOLATION property=C09 replay=%s' % path); nviol += 1
    nviol += max(0, len(by_id) - 10)
    mc = run_mc('MCBinding', tier, work)
    if mc.get('error'):
        print('CHECK-ERROR property=C09 model checking: %s' % mc['error'][:2000]); return 2
    if mc.get('violated'):
        path = os.path.join(rp, 'C09-model.txt'); open(path, 'w').write(mc['output'])
        out_lines.append('VIOLATION property=C09 replay=%s' % path); nviol += 1
    for l in out_lines:
        print(l)
    cov = dict(states=mc.get('distinct', 0), transitions=mc.get('generated', 0), traces_validated_against_impl=len(cases),
               evaluations=len(cases), distinct_nontrivial=len({(c['n'], c['i'], c['mode'], c['kind']) for c in cases.values() if c['n'] > 0}),
               rule='generated family: arity x position x passing mode (value, &, const&, &&, T*, move-only unique_ptr, copy-counting by value / const&) x kind of mock function '
                    '(MAKE_MOCKn, MAKE_CONST_MOCKn, overloaded, IMPLEMENT_MOCKn); each case executed once, observations judged by Binding!Expect; non-trivial = case with at least one parameter',
               samples=[cases[i] for i in list(cases)[:3]], model_checking=mc.get('summary', {}), exhaustive=(tier == 'thorough'),
               arities=sorted({c['n'] for c in cases.values()}), tree=lib.tree_hash())
    lib.write_evidence(prop, tier, seed, 'model_checking', cov, time.time() - t0, nviol,
                       ['the family axis (arity, position, type) is generated C++; the TLA+ contributes the aliasing / capture semantics and the expected observation',
                        '_j beyond the arity is checked as a compile error under C19', 'ASan+UBSan on'])
    shutil.rmtree(work, ignore_errors=True)
    log('C09 %s: %d cases, %d violations, mc=%s, %.0fs' % (tier, len(cases), nviol, mc.get('summary'), time.time() - t0))
    return 1 if nviol else 0

REGISTRY['C09'] = run_c09

# ---------------------------------------------------------------- C12: thread safety

TSAN_ENV = {'TSAN_OPTIONS': 'exitcode=66 halt_on_error=0 second_deadlock_stack=1 history_size=4'}

def run_conc(prop, tier, seed, t0):
    import subprocess, normalize
    import concurrent.futures as cf
    work = os.path.join(lib.BUILD, 'work-%s-%d' % (prop, os.getpid()))
    shutil.rmtree(work, ignore_errors=True); os.makedirs(work)
    rp = os.path.join(lib.BUILD, 'replay'); os.makedirs(rp, exist_ok=True)
    nseg = 400 if tier == 'quick' else 60000
    segs = gen_scripts.gen_conc_segments(nseg, seed) + fixed_conc_segments()
    by_id = dict(segs)
    res = conc_validate(segs, work, seed)
    return run_conc_tail(prop, tier, seed, t0, work, rp, segs, by_id, res)

def conc_validate(segs, work, seed):
    """run concurrent segments on the TSan-built driver and validate the linearized traces; list of per-chunk results"""
    import subprocess, normalize
    import concurrent.futures as cf
    d = lib.build_conc()
    nch = lib.NCPU // 2          # each driver process runs up to 3 busy threads
    chunks = [segs[i::nch] for i in range(nch)]
    env = dict(os.environ); env.update(TSAN_ENV)
    sites = normalize.Sites(os.path.join(d, 'sites.json'))
    def one(i):
        if not chunks[i]:
            return dict(viol=[], events=0)
        script = os.path.join(work, 'c%d.script' % i); raw = os.path.join(work, 'c%d.raw' % i); norm = os.path.join(work, 'c%d.ndjson' % i)
        with open(script, 'w') as f:
            for sid, lines in chunks[i]:
                f.write('seg %s\n' % sid)
                for l in lines:
                    f.write(l + '\n')
        p = subprocess.run(['timeout', '1800', os.path.join(d, 'drv_conc'), script, raw, str(seed * 131 + i)], env=env,
                           stdout=subprocess.PIPE, stderr=subprocess.STDOUT, text=True)
        if p.returncode != 0:
            return dict(error='driver rc=%d %s' % (p.returncode, p.stdout[-400:]))
        n = normalize.normalize_conc_file(raw, norm, sites)
        r = lib.validate_generic('TraceCore.tla', 'TraceCore.cfg', norm, work, 'v%d' % i)
        r['events'] = n
        r['hist'] = {}
        bad = {v['seg'] for v in r.get('viol', [])}
        if bad:      # schedules are sampled: keep the recorded linearization of a rejected segment with its replay file
            cur = None
            for line in open(norm):
                e = json.loads(line)
                if e.get('e') == 'Seg':
                    cur = e['id']
                elif cur in bad:
                    r['hist'].setdefault(cur, []).append('%s %s reps=%s q=%s acc=%s' % (e.get('e'), e.get('a'), [(x.get('kind'), x.get('ent')) for x in e.get('reps', [])], e.get('q'), e.get('acc')))
        return r
    with cf.ThreadPoolExecutor(nch) as ex:
        return list(ex.map(one, range(nch)))

def run_conc_tail(prop, tier, seed, t0, work, rp, segs, by_id, res):
    errs = [r['error'] for r in res if 'error' in r]
    if errs:
        print('CHECK-ERROR property=C12 %s' % errs[0][:2000]); return 2
    known = lib.load_known()
    viols = [v for r in res for v in r['viol']]
    by_seg, nviol, out_lines = {}, 0, []
    kf_seen = {}
    for v in viols:
        ks = [kf for kf in known.get('open', []) if known_match(kf, prop, v, by_id.get(v['seg'], []))]
        if ks:
            kf_seen.setdefault(ks[0]['id'], (ks[0], []))[1].append(v['seg'])
            continue
        by_seg.setdefault(v['seg'], []).append(v)
    for kid, (kf, sg) in kf_seen.items():
        print('KNOWN-FINDING: property=C12 %s %s (seen in %d sampled schedules, e.g. segment %s)' % (kid, kf['what'][:400], len(sg), sg[0]))
    for sid, vs in list(by_seg.items())[:10]:
        hist = next((r['hist'][sid] for r in res if sid in r.get('hist', {})), [])
        path = replay_file('C12', sid, by_id.get(sid, []), vs, 'concurrent segment: re-run with build/conc-*/drv_conc <this file> out.ndjson <seed>; schedules are sampled; '
                           'recorded linearization (critical sections in lock-ticket order):\n#   ' + '\n#   '.join(hist))
        out_lines.append('VIOLATION property=C12 replay=%s' % path); nviol += 1
    nviol += max(0, len(by_seg) - 10)
    # the repository's own threading stress test (thread_terror.cpp) under ThreadSanitizer: 13 threads creating mocks,
    # placing ALLOW_CALLs and calling concurrently; its conservation law (calls handled == values returned) is asserted by the program
    tt = run_thread_terror(work)
    if tt.get('violated'):
        path = os.path.join(rp, 'C12-thread_terror.txt'); open(path, 'w').write(tt['output'])
        out_lines.append('VIOLATION property=C12 replay=%s' % path); nviol += 1
    mc = run_mc('MCConc', tier, work, 'C12')
    if mc.get('error'):
        print('CHECK-ERROR property=C12 model checking: %s' % mc['error'][:2000]); return 2
    if mc.get('violated'):
        path = os.path.join(rp, 'C12-model.txt'); open(path, 'w').write(mc['output'])
        out_lines.append('VIOLATION property=C12 replay=%s' % path); nviol += 1
    for l in out_lines:
        print(l)
    events = sum(r.get('events', 0) for r in res)
    nontriv = len({seg_hash(ops) for sid, ops in segs if sum(1 for o in ops if o.startswith('thr 0')) >= 2 and sum(1 for o in ops if o.startswith('thr 1')) >= 2})
    cov = dict(states=mc.get('distinct', 0), transitions=mc.get('generated', 0), traces_validated_against_impl=len(segs), events=events,
               evaluations=len(segs), distinct_nontrivial=nontriv,
               rule='seeded concurrent programs: 2-8 threads (up to 3 owners x 3-14 ops, callers x 2-8 ops) over {create (with/without IN_SEQUENCE, TIMES), call, release, query, is_completed, watch / destroy watched object / release monitor, destroy own mock} '
                    'on shared mock + shared sequences; schedule perturbed by random yields in the instrumented lock; one schedule per program per run (sampled, not exhaustive); '
                    'non-trivial = distinct program with >= 2 ops in at least two threads',
               samples=[dict(segment=s, ops=o[:30]) for s, o in segs[:2]], model_checking=mc.get('summary', {}), exhaustive=False,
               observers='ThreadSanitizer; lock-held flag of every hook event; linearization replay in lock-ticket order through Core!Step by TLC; the repository\'s thread_terror.cpp under TSan',
               thread_terror=tt.get('output', tt.get('note', ''))[-200:],
               tree=lib.tree_hash())
    if not mc.get('distinct'):
        cov.pop('states'); cov.pop('transitions')
    lib.write_evidence(prop, tier, seed, 'model_checking', cov, time.time() - t0, nviol,
                       ['interleavings are exhaustive only in the model (MCConc); on the implementation schedules are sampled',
                        'caller obligations: each thread destroys / queries only objects it owns; reporters installed before the threads start',
                        'linearization witness = order of the instrumented lock acquisitions (custom recursive mutex seam)'])
    shutil.rmtree(work, ignore_errors=True)
    log('C12 %s: %d programs, %d events, %d violations, mc=%s, %.0fs' % (tier, len(segs), events, nviol, mc.get('summary'), time.time() - t0))
    return 1 if nviol else 0

def run_thread_terror(work):
    import subprocess
    src = os.path.join(lib.REPO, 'test', 'thread_terror.cpp')
    if not os.path.exists(src):
        return dict(note='test/thread_terror.cpp not present')
    exe = os.path.join(work, 'tt_tsan')
    p = subprocess.run(['g++', '-std=c++14', '-O1', '-g1', '-fsanitize=thread', '-pthread', '-I' + lib.INCLUDE, src, '-o', exe],
                       stdout=subprocess.PIPE, stderr=subprocess.STDOUT, text=True)
    if p.returncode != 0:
        return dict(note='thread_terror does not build: ' + p.stdout[-300:])
    env = dict(os.environ); env.update(TSAN_ENV)
    q = subprocess.run(['timeout', '1500', exe], env=env, stdout=subprocess.PIPE, stderr=subprocess.STDOUT, text=True)
    if q.returncode != 0:
        return dict(violated=True, output='thread_terror under ThreadSanitizer: exit %d\n%s' % (q.returncode, q.stdout[-6000:]))
    return dict(ok=True, output=q.stdout[-300:])

def fixed_conc_segments():
    d = os.path.join(lib.HARNESS, 'witness')
    out = []
    p = os.path.join(d, 'C12_conc.script')
    if os.path.exists(p):
        cur = None
        for line in open(p):
            line = line.rstrip('\n')
            if not line or line.startswith('#'):
                continue
            if line.startswith('seg '):
                cur = (line[4:], []); out.append(cur)
            elif cur:
                cur[1].append(line)
    return out

REGISTRY['C12'] = run_conc

# ---------------------------------------------------------------- the repository's own tests, validated against Generic.tla
SUITE_PROPS = ('C01', 'C02', 'C03', 'C04', 'C05', 'C07', 'C14', 'C15')

def suite_trace(tier, seed):
    """Run the repository's self_test and thread_terror (built with the guarded hooks) and validate the recorded event
    traces against spec/Generic.tla with TLC.  Returns dict(viol=[...], cases, events, tt_events) or dict(error=...).
    The verdict is cached per (tree + test sources + spec) hash: same tree, same binary, same deterministic suite."""
    import subprocess, suite_trace as st
    try:
        d = lib.build_suite()
        d11 = lib.build_suite('c++11')        # the C++11 configuration of the library (own macro layer, detail:: replacements of std facilities)
        d20 = lib.build_suite('c++20') if tier == 'thorough' else None
    except lib.BuildError as e:
        return dict(error=str(e))
    spec_h = lib.sha_files([os.path.join(lib.SPEC, f) for f in ('Generic.tla', 'TraceGeneric.tla', 'TraceGeneric.cfg')] + [os.path.join(lib.HARNESS, 'suite_trace.py')])
    cache = os.path.join(d, 'verdict-v3-%s-%s.json' % (tier, spec_h))        # v3: C++14 + C++11 (+ C++20 thorough) builds of self_test, thread_terror prefix
    with lib.Lock(os.path.join(d, 'run.lock')):
        if os.path.exists(cache):
            return json.load(open(cache))
        out = dict(viol=[], cases=0, events=0, tt_events=0, notes=[])
        work = os.path.join(d, 'work-%d' % os.getpid())
        shutil.rmtree(work, ignore_errors=True); os.makedirs(work)
        try:
            runs = []
            if os.path.exists(os.path.join(d, 'self_test_g')):
                runs.append(('self_test', [os.path.join(d, 'self_test_g')], None))
            if os.path.exists(os.path.join(d11, 'self_test_g')):
                runs.append(('self_test_cxx11', [os.path.join(d11, 'self_test_g')], None))
            if d20 and os.path.exists(os.path.join(d20, 'self_test_g')):
                runs.append(('self_test_cxx20', [os.path.join(d20, 'self_test_g')], None))     # C++20 build: adds test_co_mock.cpp (mocked coroutines)
            if os.path.exists(os.path.join(d, 'thread_terror_g')):
                runs.append(('thread_terror', [os.path.join(d, 'thread_terror_g')], 800000 if tier == 'quick' else 4000000))
            for name, cmd, maxl in runs:
                raw = os.path.join(work, name + '.raw'); norm = os.path.join(work, name + '.ndjson')
                env = dict(os.environ, VERIF_GTRACE=raw)
                if maxl:
                    env['VERIF_GTRACE_MAX'] = str(maxl)
                p = subprocess.run(['timeout', '900'] + cmd, env=env, stdout=subprocess.PIPE, stderr=subprocess.STDOUT, text=True)
                out['notes'].append('%s: exit %d, %s' % (name, p.returncode, (p.stdout.strip().splitlines() or [''])[-1][:120]))
                if not os.path.exists(raw):
                    return dict(error='%s wrote no trace (exit %d): %s' % (name, p.returncode, p.stdout[-500:]))
                n = st.normalize(raw, norm)
                os.unlink(raw)
                r = lib.validate_generic('TraceGeneric.tla', 'TraceGeneric.cfg', norm, work, 'g_' + name)
                if 'error' in r:
                    return dict(error='%s: %s' % (name, r['error']))
                for v in r['viol']:
                    v['program'] = name
                    # keep the events of the rejected test case with the violation (the replay evidence)
                    lines = open(norm).read().splitlines()
                    lo = v['line'] - 1
                    while lo > 0 and '"e":"Case"' not in lines[lo]:
                        lo -= 1
                    v['history'] = lines[lo:v['line'] + 2][-120:]
                out['viol'] += r['viol']
                if name.startswith('self_test'):
                    out['events'] += n
                    out['cases'] += sum(1 for l in open(norm) if '"e":"Case"' in l)
                else:
                    out['tt_events'] = n
        finally:
            shutil.rmtree(work, ignore_errors=True)
        json.dump(out, open(cache, 'w'))
        return out

def suite_violations(prop, tier, seed):
    """violations of the generic rules that concern `prop`, as VIOLATION lines + replay files; (nviol, lines, coverage dict)"""
    r = suite_trace(tier, seed)
    if 'error' in r:
        return None, ['CHECK-ERROR property=%s repository test trace: %s' % (prop, r['error'][:1500])], {}
    rp = os.path.join(lib.BUILD, 'replay'); os.makedirs(rp, exist_ok=True)
    lines, n = [], 0
    for i, v in enumerate(r['viol']):
        if prop not in v.get('prop', '').split() and v.get('prop') != 'HARNESS':
            continue
        path = os.path.join(rp, '%s-suite-%d.txt' % (prop, i))
        with open(path, 'w') as f:
            f.write('# rule "%s" of spec/Generic.tla violated by the repository\'s own %s (test case "%s"), event %d\n' % (v['field'], v['program'], v.get('seg', ''), v['line']))
            f.write('# expected: %s\n# got: %s\n# re-run: ./check %s %s (builds %s with -DROLLBEAR_TROMPELOEIL_VERIF and validates its hook trace)\n' % (v['exp'], v['got'], prop, tier, v['program']))
            f.write('\n'.join(v.get('history', [])) + '\n')
        lines.append('VIOLATION property=%s replay=%s' % (prop, path)); n += 1
        if n >= 5:
            break
    cov = dict(repository_tests=dict(self_test_cases=r.get('cases', 0), self_test_events=r.get('events', 0), thread_terror_events=r.get('tt_events', 0),
                                     notes=r.get('notes', []), spec='Generic.tla / TraceGeneric.tla',
                                     rule='every hook event of the repository\'s own self_test (all test cases) and of a prefix of thread_terror, folded through Generic!GStep by TLC'))
    return n, lines, cov
