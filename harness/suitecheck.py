#!/usr/bin/env python3
"""suitecheck.py <patch>...: apply each patch to a scratch worktree of /repo and run ONLY the generic binding
(repository's own tests with hooks -> Generic.tla).  Survey tool: which seeded changes does that binding see on its own?"""
import os, subprocess, sys, tempfile, json
VERIF = os.path.dirname(os.path.dirname(os.path.abspath(__file__)))
for patch in sys.argv[1:]:
    tree = tempfile.mkdtemp(prefix='suiterepo-', dir='/tmp'); os.rmdir(tree)
    subprocess.run(['git', '-C', '/repo', 'worktree', 'add', '--detach', tree, 'HEAD'], check=True, stdout=subprocess.DEVNULL, stderr=subprocess.DEVNULL)
    try:
        r = subprocess.run(['git', '-C', tree, 'apply', '--3way', os.path.abspath(patch)], stdout=subprocess.DEVNULL, stderr=subprocess.DEVNULL)
        if r.returncode != 0:
            print(patch, 'does not apply'); continue
        code = ("import sys; sys.path.insert(0, %r); import checks, json; r = checks.suite_trace('quick', 1); "
                "print(json.dumps(dict(error=r.get('error', '')[:300], n=len(r.get('viol', [])), rules=sorted({v['field'] for v in r.get('viol', [])}), notes=r.get('notes'))))" % os.path.join(VERIF, 'harness'))
        q = subprocess.run([sys.executable, '-c', code], env=dict(os.environ, VERIF_REPO=tree), stdout=subprocess.PIPE, stderr=subprocess.DEVNULL, text=True)
        print(os.path.basename(os.path.dirname(patch)) or patch, q.stdout.strip()[-400:])
    finally:
        subprocess.run(['git', '-C', '/repo', 'worktree', 'remove', '--force', tree])
