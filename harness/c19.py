"""C19: compile-time rejection of misuse, legal forms compile, macro namespace.

The typestate machine spec/Clauses.tla is explored by TLC (MCClauses); for every reachable legal typestate TLC
prints the verdict (list of required diagnostics, empty = must compile) of the statement extending the state's
shortest legal clause path by each clause: one implementation test per transition.  Each statement becomes one
source line in its own function; g++ -fsyntax-only output is attributed to lines through the 'required from
here' notes; a line must show every required diagnostic, and a line with an empty verdict must show no error."""
import concurrent.futures as cf
import json, os, random, re, shutil, subprocess, time
import lib
from lib import log

KFN = {'void': 'fv', 'value': 'fi', 'ref': 'fr', 'coval': 'ct', 'covoid': 'cv', 'gen': 'cg'}
HEADM = {'REQ': 'REQUIRE_CALL', 'ALLOW': 'ALLOW_CALL', 'FORBID': 'FORBID_CALL'}

def clause_cpp(c, k):
    if c == 'WITH': return '.WITH(gi == 0)'
    if c == 'SE': return '.SIDE_EFFECT(++gi)'
    if c == 'RET': return '.LR_RETURN(std::ref(gi))' if k == 'ref' else '.RETURN(1)'
    if c == 'THROW': return '.THROW(1)'
    if c == 'T2': return '.TIMES(2)'
    if c == 'T0': return '.TIMES(0)'
    if c == 'TINV': return '.TIMES(2, 1)'
    if c == 'TAL': return '.TIMES(AT_LEAST(1))'
    if c == 'RT': return '.RT_TIMES(1, 2)'
    if c == 'SEQ': return '.IN_SEQUENCE(seq)'
    if c == 'CORET': return '.CO_RETURN()' if k in ('covoid', 'gen') else '.CO_RETURN(1)'
    if c == 'COTHROW': return '.CO_THROW(1)'
    if c == 'COYIELD': return '.CO_YIELD(1)'
    raise ValueError(c)

CO_CLAUSES = {'CORET', 'COTHROW', 'COYIELD'}

PRELUDE14 = '''#include <trompeloeil.hpp>
#include <functional>
static int gi;
'''
PRELUDE20 = '''#include <trompeloeil.hpp>
#include <functional>
#include "mini_coro.hpp"
static int gi;
'''
KSIG = {'void': 'void()', 'value': 'int()', 'ref': 'int&()', 'coval': '(vt::task<int>())', 'covoid': '(vt::task<void>())', 'gen': '(vt::gen<int>())'}

def get_plan(work, maxlen):
    cfg = os.path.join(work, 'MCClauses_run.cfg')
    open(cfg, 'w').write('SPECIFICATION Spec\nCONSTANTS\n  MaxLen = %d\nVIEW View\nINVARIANT Emit\nINVARIANT TypeOk\nCHECK_DEADLOCK FALSE\n' % maxlen)
    rc, out = lib.tlc('MCClauses.tla', cfg, work, workers=1, timeout=600)
    if rc != 0 or 'No error has been found' not in out:
        raise RuntimeError('TLC on MCClauses failed rc=%d\n%s' % (rc, out[-2000:]))
    plans = []
    for line in out.splitlines():
        m = re.match(r'<<"PLAN", "(.*)">>$', line.strip())
        if m:
            plans.append(json.loads(m.group(1).replace('\\"', '"').replace('\\\\', '\\')))
    return plans, lib.tlc_stats(out)

def statements(plans):
    """-> list of dict(k, head, seq, msgs)"""
    out, seen = [], set()
    for p in plans:
        base = dict(k=p['k'], head=p['head'])
        key = (p['k'], p['head'], tuple(p['path']))
        if key not in seen:
            seen.add(key)
            out.append(dict(base, seq=list(p['path']), msgs=[p['endmsg']] if p['endmsg'] else []))
        for n in p['next']:
            seq = list(p['path']) + [n['c']]
            key = (p['k'], p['head'], tuple(seq))
            if key not in seen:
                seen.add(key)
                out.append(dict(base, seq=seq, msgs=list(n['msgs'])))
    return out

FORMS = ('named', 'v', 'namedv', 'long')

def stmt_cpp(s):
    """the statement in one of the macro forms: plain scoped, NAMED_, the C++11-style _V forms (clauses as a macro argument), TROMPELOEIL_-prefixed"""
    head, call = HEADM[s['head']], '%s()' % KFN[s['k']]
    cl = ''.join(clause_cpp(c, s['k']) for c in s['seq'])
    form = s.get('form', 'plain')
    if form == 'named':
        return 'auto e = NAMED_%s(obj, %s)%s; (void)e;' % (head, call, cl)
    if form == 'v':
        return '%s_V(obj, %s%s);' % (head, call, (', ' + cl) if cl else '')
    if form == 'namedv':
        return 'auto e = NAMED_%s_V(obj, %s%s); (void)e;' % (head, call, (', ' + cl) if cl else '')
    if form == 'long':
        lcl = re.sub(r'\.(LR_)?(WITH|SIDE_EFFECT|RETURN|THROW|TIMES|RT_TIMES|IN_SEQUENCE)\(', lambda m: '.TROMPELOEIL_%s%s(' % (m.group(1) or '', m.group(2)), cl)
        lcl = lcl.replace('(AT_LEAST(', '(TROMPELOEIL_AT_LEAST(')
        return 'TROMPELOEIL_%s(obj, %s)%s;' % (head, call, lcl)
    return '%s(obj, %s)%s;' % (head, call, cl)

def compile_tu(args):
    path, std, incs = args[:3]
    if len(args) > 3 and args[3] == 'clang':
        p = subprocess.run(['clang++', '-std=' + std, '-fsyntax-only', '-ferror-limit=0', '-w'] + ['-I' + i for i in incs] + [path],
                           stdout=subprocess.PIPE, stderr=subprocess.STDOUT, text=True)
        return p.returncode, p.stdout
    p = subprocess.run(['g++', '-std=' + std, '-fsyntax-only', '-fmax-errors=0', '-ftemplate-backtrace-limit=0', '-w'] +
                       ['-I' + i for i in incs] + [path], stdout=subprocess.PIPE, stderr=subprocess.STDOUT, text=True)
    return p.returncode, p.stdout

def attribute(output, fname):
    """diagnostics per source line of fname: {line: [messages]} ; errors that cannot be attributed -> line 0"""
    per, cur = {}, 0
    base = os.path.basename(fname)
    for l in output.splitlines():
        m = re.match(r'(?:\S*/)?' + re.escape(base) + r':(\d+):\d+:\s+required from here', l)
        if m:
            cur = int(m.group(1)); continue
        m2 = re.match(r'(?:\S*/)?' + re.escape(base) + r':(\d+):\d+: error: (.*)', l)
        if m2:
            per.setdefault(int(m2.group(1)), []).append(m2.group(2)); continue
        m3 = re.search(r': error: (?:static assertion failed: )?(.*)', l)
        if m3:
            per.setdefault(cur, []).append(m3.group(1))
        if re.match(r'\S+: In (instantiation|function|member|substitution|lambda)', l) or l.startswith('In file included'):
            pass
    return per

def attribute_clang(output, fname):
    """clang prints the error first and the instantiation notes after it: the first note in our file gives the line"""
    per, pending = {}, []
    base = os.path.basename(fname)
    for l in output.splitlines():
        m = re.search(r': error: (?:static_assert failed(?: due to requirement \'[^\']*\')? )?"?(.*?)"?$', l)
        if m and ': error:' in l:
            here = re.match(r'(?:\S*/)?' + re.escape(base) + r':(\d+):\d+: error: (.*)', l)
            if here:
                per.setdefault(int(here.group(1)), []).append(here.group(2))
            else:
                pending.append(m.group(1))
            continue
        m2 = re.match(r'(?:\S*/)?' + re.escape(base) + r':(\d+):\d+: note: ', l)
        if m2 and pending:
            per.setdefault(int(m2.group(1)), []).extend(pending)
            pending = []
    if pending:
        per.setdefault(0, []).extend(pending)
    return per

def run_stmts(stmts, work, std, tag, per_tu=80, compiler='gcc'):
    """returns list of (stmt, ok, detail)"""
    os.makedirs(work, exist_ok=True)
    prel = PRELUDE20 if std == 'c++20' else PRELUDE14
    tus, jobs = [], []
    for i in range(0, len(stmts), per_tu):
        chunk = stmts[i:i + per_tu]
        path = os.path.join(work, '%s_%d.cpp' % (tag, i // per_tu))
        lines = prel.rstrip('\n').split('\n')
        index = {}
        for j, s in enumerate(chunk):
            # a mock type of its own per statement: identical template instantiations are diagnosed only once per TU
            lines.append('struct CM_%d { MAKE_MOCK0(%s, %s); };' % (j, KFN[s['k']], KSIG[s['k']]))
            lines.append('void t_%d(CM_%d& obj, trompeloeil::sequence& seq) { (void)seq; %s }' % (j, j, stmt_cpp(s)))
            index[len(lines)] = s
        open(path, 'w').write('\n'.join(lines) + '\n')
        tus.append((path, index))
        jobs.append((path, std, [lib.INCLUDE, os.path.join(lib.HARNESS, 'coro')], compiler))
    with cf.ThreadPoolExecutor(lib.NCPU) as ex:
        res = list(ex.map(compile_tu, jobs))
    results = []
    for (path, index), (rc, out) in zip(tus, res):
        per = attribute_clang(out, path) if compiler == 'clang' else attribute(out, path)
        stray = per.get(0, [])
        for ln, s in index.items():
            got = per.get(ln, [])
            missing = [m for m in s['msgs'] if not any(m in g for g in got)]
            if s['msgs']:
                ok = not missing
                detail = 'required diagnostic(s) missing: %s; got: %s' % (missing, got[:6]) if missing else ''
            else:
                ok = not got
                detail = 'legal statement does not compile: %s' % got[:6] if got else ''
            results.append((s, ok, detail, path, ln))
        if stray:
            results.append((dict(k='-', head='-', seq=[], msgs=[]), False, 'errors not attributable to a statement: %s' % stray[:4], path, 0))
    return results

# ---------------- shipped negative programs, fixed catalogue, macro namespace

def shipped_programs(std_flags):
    d = os.path.join(lib.REPO, 'compilation_errors')
    out = []
    for f in sorted(os.listdir(d)):
        if not f.endswith('.cpp'):
            continue
        txt = open(os.path.join(d, f)).read()
        mp = re.search(r'^// pass: (.*)$', txt, re.M)
        me = re.search(r'^// exception: (.*)$', txt, re.M)
        out.append((os.path.join(d, f), mp.group(1) if mp else None, me.group(1) if me else None))
    return out

def bre_to_py(rx):
    """the repository's rules are POSIX basic regular expressions (grep / sed): + ? | ( ) { } are literal unless escaped"""
    out, i = '', 0
    while i < len(rx):
        c = rx[i]
        if c == '\\' and i + 1 < len(rx):
            n = rx[i + 1]
            out += n if n in '|(){}+?' else '\\' + n
            i += 2
        elif c in '+?|(){}':
            out += '\\' + c; i += 1
        else:
            out += c; i += 1
    return out

def run_shipped(stds):
    res = []
    progs = shipped_programs(stds)
    def one(a):
        path, rx, exc, std = a
        ident = 'Linux g++ -std=%s' % std
        if exc and re.search(bre_to_py(exc), ident):
            return (path, std, True, 'exempt by its own exception rule')
        p = subprocess.run(['g++', '-std=' + std, '-fsyntax-only', '-I' + lib.INCLUDE, path], stdout=subprocess.PIPE, stderr=subprocess.STDOUT, text=True)
        if p.returncode == 0:
            return (path, std, False, 'compiles, but must be rejected')
        ok = re.search(rx, p.stdout) is not None      # pass rules are used with egrep (ERE)
        return (path, std, ok, '' if ok else 'rejected without the documented message /%s/: %s' % (rx, p.stdout[-600:]))
    jobs = [(path, rx, exc, std) for (path, rx, exc) in progs for std in stds if rx]
    with cf.ThreadPoolExecutor(lib.NCPU) as ex:
        return list(ex.map(one, jobs))

FIXED = [
    # (name, std, code, must_compile, required message regex)
    ('param index beyond arity', 'c++14',
     'struct M { MAKE_MOCK1(f, int(int)); }; void t(M& m) { REQUIRE_CALL(m, f(trompeloeil::_)).RETURN(_2); }', False, r'illegal argument'),
    ('param index within arity', 'c++14',
     'struct M { MAKE_MOCK2(f, int(int, int)); }; void t(M& m) { REQUIRE_CALL(m, f(trompeloeil::_, trompeloeil::_)).WITH(_1 < _2).RETURN(_2); }', True, ''),
    ('MAKE_MOCKn arity mismatch', 'c++14', 'struct M { MAKE_MOCK2(f, int(int)); };', False, r'Function signature does not have 2 parameters'),
    ('value from typed matcher', 'c++14',
     'struct M { MAKE_MOCK1(f, int(int)); }; void t(M& m) { REQUIRE_CALL(m, f(trompeloeil::eq<int>(1))).RETURN(_1 + 0); int x = trompeloeil::eq<int>(3); (void)x; }', False, r'value from a typed matcher'),
    ('moving a non-movable mock', 'c++14',
     'struct M { MAKE_MOCK0(f, void()); }; void t() { M a; M b(std::move(a)); }', False, r'By default, mock objects are not movable'),
    ('moving a movable mock', 'c++14',
     'struct M { static constexpr bool trompeloeil_movable_mock = true; MAKE_MOCK0(f, void()); }; void t() { M a; M b(std::move(a)); }', True, ''),
    ('all clause kinds, documented order', 'c++14',
     'struct M { MAKE_MOCK1(f, int(int)); }; static int g; void t(M& m, trompeloeil::sequence& s) { REQUIRE_CALL(m, f(trompeloeil::gt(0))).WITH(_1 != 5).LR_WITH(g == 0).IN_SEQUENCE(s).SIDE_EFFECT(++g;).LR_SIDE_EFFECT(g = _1).TIMES(AT_MOST(3)).RETURN(_1); '
     'ALLOW_CALL(m, f(1)).THROW(std::runtime_error("x")); FORBID_CALL(m, f(2)); auto e = NAMED_REQUIRE_CALL(m, f(3)).RT_TIMES(1, 2).LR_RETURN(g); }', True, ''),
    ('deathwatched needs a virtual destructor', 'c++14',
     'struct N { MAKE_MOCK0(f, void()); }; void t() { trompeloeil::deathwatched<N> n; }', False, r'virtual destructor is a necessity for deathwatched to work'),
    ('multiple IN_SEQUENCE on REQUIRE_DESTRUCTION', 'c++14',
     'struct D { virtual ~D() = default; MAKE_MOCK0(f, void()); }; void t(trompeloeil::sequence& s) { trompeloeil::deathwatched<D> d; REQUIRE_DESTRUCTION(d).IN_SEQUENCE(s).IN_SEQUENCE(s); }', False, r'Multiple IN_SEQUENCE does not make sense'),
]

def run_fixed(work):
    os.makedirs(work, exist_ok=True)
    res = []
    for i, (name, std, code, must, rx) in enumerate(FIXED):
        path = os.path.join(work, 'fixed_%d.cpp' % i)
        open(path, 'w').write('#include <trompeloeil.hpp>\n#include <stdexcept>\n' + code + '\n')
        p = subprocess.run(['g++', '-std=' + std, '-fsyntax-only', '-I' + lib.INCLUDE, path], stdout=subprocess.PIPE, stderr=subprocess.STDOUT, text=True)
        if must:
            ok = p.returncode == 0
            detail = '' if ok else 'documented legal form does not compile: ' + p.stdout[-800:]
        else:
            ok = p.returncode != 0 and re.search(rx, p.stdout) is not None
            detail = '' if ok else ('compiles, but must be rejected' if p.returncode == 0 else 'rejected without /%s/: %s' % (rx, p.stdout[-800:]))
        res.append((name, ok, detail, path))
    return res

def macro_namespace(work):
    """with TROMPELOEIL_LONG_MACROS every macro the headers introduce starts with TROMPELOEIL_ (or is an include guard of theirs)"""
    os.makedirs(work, exist_ok=True)
    bad = {}
    for std, extra in (('c++14', []), ('c++20', [])):
        src_a = os.path.join(work, 'ns_a.cpp'); src_b = os.path.join(work, 'ns_b.cpp')
        hdrs = ['<trompeloeil.hpp>', '<trompeloeil/lifetime.hpp>', '<trompeloeil/sequence.hpp>', '<trompeloeil/matcher/range.hpp>', '<trompeloeil/stream_tracer.hpp>']
        if std == 'c++20':
            hdrs.append('<trompeloeil/coro.hpp>')
        std_hdrs = '#include <algorithm>\n#include <array>\n#include <atomic>\n#include <cstddef>\n#include <cstring>\n#include <functional>\n#include <initializer_list>\n#include <iomanip>\n#include <iostream>\n#include <memory>\n#include <mutex>\n#include <regex>\n#include <sstream>\n#include <stdexcept>\n#include <tuple>\n#include <type_traits>\n#include <utility>\n#include <vector>\n#include <list>\n#include <exception>\n#include <cstdint>\n#include <climits>\n#include <string>\n#include <ostream>\n#include <iterator>\n#include <cassert>\n'
        if std == 'c++20':
            std_hdrs += '#include <coroutine>\n#include <ranges>\n#include <version>\n#include <concepts>\n#include <expected>\n#include <optional>\n#include <string_view>\n'
        open(src_a, 'w').write(std_hdrs)
        open(src_b, 'w').write(std_hdrs + ''.join('#include %s\n' % h for h in hdrs))
        def macros(src):
            p = subprocess.run(['g++', '-std=' + std, '-DTROMPELOEIL_LONG_MACROS', '-dM', '-E', '-I' + lib.INCLUDE, src], stdout=subprocess.PIPE, stderr=subprocess.DEVNULL, text=True)
            return {l.split()[1].split('(')[0] for l in p.stdout.splitlines() if l.startswith('#define ')}
        new = macros(src_b) - macros(src_a)
        for m in new:
            if not m.startswith('TROMPELOEIL_') and not m.startswith('_'):
                bad.setdefault(m, std)
    return bad

def run_c19(prop, tier, seed, t0):
    work = os.path.join(lib.BUILD, 'work-C19-%d' % os.getpid())
    shutil.rmtree(work, ignore_errors=True); os.makedirs(work)
    rnd = random.Random(seed)
    plans, st = get_plan(work, 6)
    stmts = statements(plans)
    co = [s for s in stmts if s['k'] in ('coval', 'covoid', 'gen') or any(c in CO_CLAUSES for c in s['seq'])]
    plain = [s for s in stmts if s not in co]
    rp = os.path.join(lib.BUILD, 'replay'); os.makedirs(rp, exist_ok=True)
    nviol, out_lines = 0, []
    results = run_stmts(stmts, os.path.join(work, 's20'), 'c++20', 'ts20')
    results += run_stmts(plain, os.path.join(work, 's14'), 'c++14', 'ts14')
    # the verdict of a statement does not depend on the macro form it is written in: NAMED_, _V (C++11 style), NAMED_..._V, TROMPELOEIL_-prefixed.
    # quick: one seeded alternative form per statement; thorough: all four
    alts = []
    for sidx, st_ in enumerate(plain):
        for f_ in (FORMS if tier == 'thorough' else (FORMS[(sidx + seed) % len(FORMS)],)):
            alts.append(dict(st_, form=f_))
    results += run_stmts(alts, os.path.join(work, 'f14'), 'c++14', 'tf14')
    if tier == 'thorough':
        results += run_stmts(plain, os.path.join(work, 's17'), 'c++17', 'ts17')
        if shutil.which('clang++'):
            results += run_stmts(plain, os.path.join(work, 'c14'), 'c++14', 'tc14', compiler='clang')   # a second compiler (clang 14)
    bad = [r for r in results if not r[1]]
    for (s, ok, detail, path, ln) in bad[:15]:
        name = '%s-%s-%s%s-%s' % (prop, s['k'], s['head'], ('.' + s['form']) if s.get('form') else '', '_'.join(s['seq']) or 'none')
        rpath = os.path.join(rp, name[:150] + '.txt')
        open(rpath, 'w').write('statement: %s\nspec verdict (required diagnostics; empty = must compile): %s\n%s\nsource: %s line %d\n'
                               % (stmt_cpp(s) if s['k'] != '-' else '-', s['msgs'], detail, path, ln))
        out_lines.append('VIOLATION property=%s replay=%s' % (prop, rpath)); nviol += 1
    nviol += max(0, len(bad) - 15)
    shipped = run_shipped(['c++14', 'c++20'] if tier == 'quick' else ['c++14', 'c++17', 'c++20'])
    for (path, std, ok, detail) in shipped:
        if not ok:
            rpath = os.path.join(rp, '%s-shipped-%s-%s.txt' % (prop, os.path.basename(path), std))
            open(rpath, 'w').write('%s (-std=%s): %s\n' % (path, std, detail))
            out_lines.append('VIOLATION property=%s replay=%s' % (prop, rpath)); nviol += 1
    fixed = run_fixed(os.path.join(work, 'fixed'))
    for (name, ok, detail, path) in fixed:
        if not ok:
            rpath = os.path.join(rp, '%s-fixed-%s.txt' % (prop, name.replace(' ', '_')))
            open(rpath, 'w').write('%s: %s\n' % (name, detail))
            out_lines.append('VIOLATION property=%s replay=%s' % (prop, rpath)); nviol += 1
    leaks = macro_namespace(os.path.join(work, 'ns'))
    if leaks:
        rpath = os.path.join(rp, '%s-macro-namespace.txt' % prop)
        open(rpath, 'w').write('macros defined by the headers outside the TROMPELOEIL_ prefix although TROMPELOEIL_LONG_MACROS is defined: %s\n' % sorted(leaks))
        out_lines.append('VIOLATION property=%s replay=%s' % (prop, rpath)); nviol += 1
    for l in out_lines:
        print(l)
    illegal = [s for s in stmts if s['msgs']]
    cov = dict(states=st['distinct'], transitions=st['generated'], traces_validated_against_impl=len(results),
               evaluations=len(results) + len(shipped) + len(fixed), distinct_nontrivial=len({stmt_cpp(s) for s in illegal}),
               rule='TLC explores the legal typestates of the expectation builder (BFS, shortest path per state) and emits, for every state x clause, '
                    'the statement and its required diagnostics: one compile test per transition of the graph, under C++20 (all) and C++14 (non-coroutine); '
                    'plus the %d shipped negative programs, a fixed catalogue and the LONG_MACROS namespace check; non-trivial = distinct statement that must be rejected'
                    % len(shipped_programs(None)),
               samples=[dict(statement=stmt_cpp(s), required=s['msgs']) for s in rnd.sample(stmts, 3)],
               exhaustive=True, statements=len(stmts), legal=len(stmts) - len(illegal), shipped=len(shipped), fixed=len(fixed), tree=lib.tree_hash())
    lib.write_evidence(prop, tier, seed, 'model_checking', cov, time.time() - t0, nviol,
                       ['g++ 12 diagnostics; a required message must appear among the diagnostics attributed to the statement line, further messages are allowed',
                        'clause argument types are well-typed (type-rule messages of RETURN are covered by the shipped programs only)',
                        'TLC is trusted to enumerate the typestate graph'])
    shutil.rmtree(work, ignore_errors=True)
    log('C19 %s: %d typestates, %d statements (%d illegal), %d compile checks, %d shipped, %d violations, %.0fs' % (
        tier, st['distinct'], len(stmts), len(illegal), len(results), len(shipped), nviol, time.time() - t0))
    return 1 if nviol else 0
