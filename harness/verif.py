#!/usr/bin/env python3
"""Entry point of every registered check:  verif.py <PROPERTY> [quick|thorough]

exit 0 = property held on everything explored (KNOWN-FINDING lines for open, listed findings);
exit 1 + 'VIOLATION property=<id> replay=<path>' otherwise;  exit 2 = the check itself is broken."""
import hashlib, json, os, shutil, sys, time, traceback
sys.path.insert(0, os.path.dirname(os.path.abspath(__file__)))
import lib
from lib import log

def main():
    if len(sys.argv) < 2:
        print(__doc__); return 2
    if sys.argv[1] == '--replay':
        return replay(sys.argv[2])
    if sys.argv[1] == '--selftest':
        import selftest
        return selftest.main(int(os.environ.get('VERIF_SEED', '1') or 1))
    prop = sys.argv[1]
    tier = sys.argv[2] if len(sys.argv) > 2 else os.environ.get('VERIF_TIER', 'quick')
    if tier not in ('quick', 'thorough'):
        tier = 'quick'
    seed = int(os.environ.get('VERIF_SEED', '1') or 1)
    t0 = time.time()
    import glob
    for f in glob.glob(os.path.join(lib.BUILD, 'replay', prop + '-*')):
        os.unlink(f)
    try:
        import checks
        fn = checks.REGISTRY.get(prop)
        if fn is None:
            print('no check registered for', prop); return 2
        return fn(prop, tier, seed, t0)
    except lib.BuildError as e:
        # the harness cannot be built against the current tree: a check error, never a VIOLATION
        print('CHECK-ERROR property=%s build failed: %s' % (prop, str(e)[:2000]))
        return 2
    except Exception:
        traceback.print_exc()
        print('CHECK-ERROR property=%s internal error' % prop)
        return 2

def replay(path):
    """re-run one recorded segment (op script in a replay file) against the current tree and validate it"""
    import checks
    if path.endswith('.txt'):
        print(open(path).read()); return 0
    segs, cur = [], None
    for line in open(path):
        line = line.strip()
        if not line or line.startswith('#'):
            continue
        if line.startswith('seg '):
            cur = (line[4:], []); segs.append(cur)
        elif cur:
            cur[1].append(line)
    work = os.path.join(lib.BUILD, 'work-replay-%d' % os.getpid())
    res = lib.conformance(segs, work, nchunks=1)
    bad = 0
    for r in res:
        if 'error' in r:
            print('CHECK-ERROR', r['error']); return 2
        for v in r['viol']:
            print('MISMATCH', json.dumps(v)); bad += 1
        print(open(r['raw']).read())
    shutil.rmtree(work, ignore_errors=True)
    return 1 if bad else 0

if __name__ == '__main__':
    sys.exit(main())
