"""Common machinery of the /verif checks: tree hashing, cached builds of the
drivers from /repo's CURRENT working tree, TLC runs, trace validation,
known-findings handling, evidence files."""
import concurrent.futures as cf
import fcntl, hashlib, json, os, re, shutil, subprocess, sys, time

VERIF = os.path.dirname(os.path.dirname(os.path.abspath(__file__)))
REPO = os.environ.get('VERIF_REPO', '/repo')
INCLUDE = os.path.join(REPO, 'include')
BUILD = os.path.join(VERIF, 'build')
SPEC = os.path.join(VERIF, 'spec')
HARNESS = os.path.join(VERIF, 'harness')
EVID = os.path.join(VERIF, 'evidence')
NCPU = min(16, os.cpu_count() or 4)

SAN_ENV = {
    'ASAN_OPTIONS': 'detect_leaks=1:exitcode=23:detect_stack_use_after_return=1:abort_on_error=0:allocator_may_return_null=1',
    'UBSAN_OPTIONS': 'halt_on_error=1:exitcode=24:print_stacktrace=1',
    'LSAN_OPTIONS': 'exitcode=23',
}
SAN_FLAGS = ['-O1', '-g1', '-fsanitize=address,undefined', '-fno-sanitize-recover=undefined', '-fno-omit-frame-pointer']

def log(*a):
    print(*a, file=sys.stderr, flush=True)

def sha_files(paths):
    h = hashlib.sha256()
    for p in sorted(paths):
        h.update(p.encode())
        with open(p, 'rb') as f:
            h.update(f.read())
    return h.hexdigest()[:16]

def include_files():
    out = []
    for root, _, files in os.walk(INCLUDE):
        for f in files:
            out.append(os.path.join(root, f))
    return out

def tree_hash(extra=()):
    return sha_files(include_files() + list(extra))

class Lock:
    def __init__(self, path):
        self.path = path
    def __enter__(self):
        os.makedirs(os.path.dirname(self.path), exist_ok=True)
        self.f = open(self.path, 'w')
        fcntl.flock(self.f, fcntl.LOCK_EX)
    def __exit__(self, *a):
        fcntl.flock(self.f, fcntl.LOCK_UN)
        self.f.close()

def prune_builds(prefix, keep=2):
    try:
        ds = [d for d in os.listdir(BUILD) if d.startswith(prefix + '-')]
    except FileNotFoundError:
        return
    ds.sort(key=lambda d: os.path.getmtime(os.path.join(BUILD, d)), reverse=True)
    now = time.time()
    for d in ds[max(keep, 3):]:
        if now - os.path.getmtime(os.path.join(BUILD, d)) > 3600:       # never remove a build another run may be using
            shutil.rmtree(os.path.join(BUILD, d), ignore_errors=True)

def compile_many(jobs, jn=NCPU):
    """jobs: list of (cmd list, cwd).  Returns list of (rc, output)."""
    def one(j):
        p = subprocess.run(j[0], cwd=j[1], stdout=subprocess.PIPE, stderr=subprocess.STDOUT, text=True)
        return p.returncode, p.stdout
    with cf.ThreadPoolExecutor(jn) as ex:
        return list(ex.map(one, jobs))

class BuildError(Exception):
    pass

def ensure_shapes_tla():
    """spec/Shapes.tla is generated from harness/shapes.py; regenerate it if it is stale"""
    import io, contextlib
    sys.path.insert(0, HARNESS)
    import gen_shapes_tla
    tmp = os.path.join(BUILD, 'Shapes.tla.%d' % os.getpid())
    os.makedirs(BUILD, exist_ok=True)
    gen_shapes_tla.main(tmp)
    dst = os.path.join(SPEC, 'Shapes.tla')
    new = open(tmp).read()
    if not os.path.exists(dst) or open(dst).read() != new:
        with Lock(os.path.join(BUILD, 'shapes.lock')):
            open(dst, 'w').write(new)
    os.unlink(tmp)

def build_suite(std='c++14'):
    """The repository's OWN test programs (test/compiling_tests*.cpp = self_test, test/thread_terror.cpp) compiled from /repo's
    working tree with the guarded verification hooks and the event sink harness/suite/sink.cpp.  Cached by content hash."""
    tdir = os.path.join(REPO, 'test')
    tsrcs = [os.path.join(tdir, f) for f in sorted(os.listdir(tdir)) if f.endswith(('.cpp', '.hpp'))] if os.path.isdir(tdir) else []
    sink = os.path.join(HARNESS, 'suite', 'sink.cpp')
    h = tree_hash(tsrcs + [sink])
    d = os.path.join(BUILD, 'suite%s-%s' % (std[3:], h))
    with Lock(os.path.join(BUILD, 'suite.lock')):
        if os.path.exists(os.path.join(d, 'ok')):
            os.utime(d)
            return d
        t0 = time.time()
        shutil.rmtree(d, ignore_errors=True)
        os.makedirs(d)
        common = ['-std=' + std, '-O0', '-w', '-DROLLBEAR_TROMPELOEIL_VERIF', '-I' + INCLUDE]
        units = [f for f in ('compiling_tests.cpp', 'compiling_tests_11.cpp', 'compiling_tests_14.cpp') + (('test_co_mock.cpp',) if std == 'c++20' else ())
                 if os.path.exists(os.path.join(tdir, f))]
        jobs = [(['g++'] + common + ['-DCATCH2_MAIN', '-DCATCH2_VERSION=2', '-c', os.path.join(tdir, f), '-o', f[:-4] + '.o'], d) for f in units]
        jobs.append((['g++'] + common + ['-DVERIF_WITH_CATCH2', '-c', sink, '-o', 'sink_catch.o'], d))
        if os.path.exists(os.path.join(tdir, 'thread_terror.cpp')):
            jobs.append((['g++'] + common[:1] + ['-O1', '-w', '-pthread', '-DROLLBEAR_TROMPELOEIL_VERIF', '-I' + INCLUDE,
                                                  os.path.join(tdir, 'thread_terror.cpp'), sink, '-o', 'thread_terror_g'], d))
        res = compile_many(jobs)
        for (rc, out), j in zip(res, jobs):
            if rc != 0:
                raise BuildError('suite build failed: %s\n%s' % (' '.join(j[0][-4:]), out[-3000:]))
        if units:
            p = subprocess.run(['g++'] + [f[:-4] + '.o' for f in units] + ['sink_catch.o', '/usr/lib/libCatch2WithMain.a', '-o', 'self_test_g'],
                               cwd=d, stdout=subprocess.PIPE, stderr=subprocess.STDOUT, text=True)
            if p.returncode != 0:
                raise BuildError('suite link failed:\n' + p.stdout[-3000:])
            for f in units:
                os.unlink(os.path.join(d, f[:-4] + '.o'))
        open(os.path.join(d, 'ok'), 'w').write('ok')
        log('built the repository\'s test programs with hooks in %.0fs' % (time.time() - t0))
    prune_builds('suite' + std[3:])
    return d

def build_seq():
    """sequential driver, ASan+UBSan+sanity checks, from /repo's working tree.  Cached by content hash."""
    ensure_shapes_tla()
    srcs = [os.path.join(HARNESS, 'seq', 'rt.hpp'), os.path.join(HARNESS, 'seq', 'main.cpp'),
            os.path.join(HARNESS, 'shapes.py'), os.path.join(HARNESS, 'gen_seq.py')]
    h = tree_hash(srcs)
    d = os.path.join(BUILD, 'seq-' + h)
    exe = os.path.join(d, 'drv_seq')
    with Lock(os.path.join(BUILD, 'seq.lock')):
        if os.path.exists(exe):
            os.utime(d)
            return d
        t0 = time.time()
        shutil.rmtree(d, ignore_errors=True)
        os.makedirs(d)
        subprocess.run([sys.executable, os.path.join(HARNESS, 'gen_seq.py'), d], check=True, stdout=subprocess.DEVNULL)
        for f in ('rt.hpp', 'main.cpp'):
            shutil.copy(os.path.join(HARNESS, 'seq', f), d)
        cpps = sorted(f for f in os.listdir(d) if f.endswith('.cpp'))
        flags = ['-std=c++14'] + SAN_FLAGS + ['-DTROMPELOEIL_SANITY_CHECKS', '-I' + INCLUDE]
        res = compile_many([(['g++'] + flags + ['-c', c, '-o', c + '.o'], d) for c in cpps])
        bad = [(c, r) for c, r in zip(cpps, res) if r[0] != 0]
        if bad:
            shutil.rmtree(d, ignore_errors=True)
            raise BuildError('driver does not compile against the current /repo/include:\n' + bad[0][1][1][-3000:])
        p = subprocess.run(['g++', '-fsanitize=address,undefined'] + [c + '.o' for c in cpps] + ['-o', 'drv_seq'], cwd=d,
                           stdout=subprocess.PIPE, stderr=subprocess.STDOUT, text=True)
        if p.returncode != 0:
            shutil.rmtree(d, ignore_errors=True)
            raise BuildError(p.stdout[-3000:])
        for c in cpps:
            os.unlink(os.path.join(d, c + '.o'))
        log('built sequential driver in %.0fs -> %s' % (time.time() - t0, d))
        prune_builds('seq')
        return d

def tlc(module, cfg, workdir, env=None, workers=1, timeout=600, extra=(), java_opts=None, cwd=SPEC):
    """run TLC; returns (rc, output)"""
    meta = os.path.join(workdir, 'meta-%d-%d' % (os.getpid(), int(time.time() * 1e6) % 10**9))
    e = dict(os.environ)
    if env:
        e.update(env)
    if java_opts:
        e['JAVA_TOOL_OPTIONS'] = java_opts
    cmd = ['timeout', str(timeout), 'tlc', '-workers', str(workers), '-metadir', meta, '-config', cfg] + list(extra) + [module]
    p = subprocess.run(cmd, cwd=cwd, env=e, stdout=subprocess.PIPE, stderr=subprocess.STDOUT, text=True)
    shutil.rmtree(meta, ignore_errors=True)
    return p.returncode, p.stdout

def tlc_stats(out):
    m = re.search(r'(\d+) states generated, (\d+) distinct states found', out)
    d = re.search(r'depth of the complete state graph search is (\d+)', out)
    return dict(generated=int(m.group(1)) if m else 0, distinct=int(m.group(2)) if m else 0, depth=int(d.group(1)) if d else 0)

# ---------------------------------------------------------------- conformance runs (sequential driver)

def run_chunk(args):
    """script -> raw trace -> normalised trace -> TLC verdict.  Returns dict."""
    drvdir, work, idx, segs, cfgname = args
    sys.path.insert(0, HARNESS)
    import normalize, gen_scripts
    script = os.path.join(work, 'c%d.script' % idx)
    raw = os.path.join(work, 'c%d.raw.ndjson' % idx)
    norm = os.path.join(work, 'c%d.ndjson' % idx)
    verdict = os.path.join(work, 'c%d.verdict' % idx)
    gen_scripts.write_script(script, segs)
    env = dict(os.environ); env.update(SAN_ENV)
    p = subprocess.run(['timeout', '2400', os.path.join(drvdir, 'drv_seq'), script, raw, '20'], env=env,
                       stdout=subprocess.PIPE, stderr=subprocess.STDOUT, text=True)
    if p.returncode != 0:
        return dict(idx=idx, error='driver rc=%d %s' % (p.returncode, p.stdout[-500:]))
    sites = normalize.Sites(os.path.join(drvdir, 'sites.json'))
    nev = normalize.normalize_file(raw, norm, sites)
    if os.path.exists(verdict):
        os.unlink(verdict)
    rc, out = tlc('TraceCore.tla', cfgname, work, env={'TRACE': norm, 'VERDICT': verdict}, workers=1, timeout=2400)
    if rc != 0 or not os.path.exists(verdict):
        return dict(idx=idx, error='TLC rc=%d\n%s' % (rc, out[-1500:]))
    viol = [json.loads(l) for l in open(verdict) if l.strip()]
    if not viol or viol[-1]['field'] != 'END' or viol[-1]['exp'] != viol[-1]['got']:
        return dict(idx=idx, error='validator did not consume the whole trace: %s' % viol[-1:])
    return dict(idx=idx, events=nev, viol=viol[:-1], script=script, raw=raw, norm=norm, tlc=tlc_stats(out))

def conformance(segs, work, cfgname='TraceCore.cfg', nchunks=None):
    """run all segments through the real library and validate against the spec.
    Returns (results, errors)."""
    drvdir = build_seq()
    os.makedirs(work, exist_ok=True)
    nchunks = nchunks or max(1, min(NCPU, len(segs) // 8 or 1))
    chunks = [segs[i::nchunks] for i in range(nchunks)]
    jobs = [(drvdir, work, i, c, cfgname) for i, c in enumerate(chunks) if c]
    with cf.ThreadPoolExecutor(NCPU) as ex:
        res = list(ex.map(run_chunk, jobs))
    return res

def seg_ops(script_path, seg_id):
    ops, cur = [], None
    for line in open(script_path):
        line = line.rstrip('\n')
        if line.startswith('seg '):
            cur = line[4:]
        elif cur == seg_id:
            ops.append(line)
    return ops

# ---------------------------------------------------------------- known findings

def load_known():
    p = os.path.join(VERIF, 'known_findings.json')
    if os.path.exists(p):
        return json.load(open(p))
    return {'open': [], 'fixed': []}

# ---------------------------------------------------------------- evidence

def write_evidence(prop, tier, seed, level, coverage, wall, violations, assumptions):
    global EVID
    if os.path.realpath(REPO) != '/repo':
        EVID = os.path.join(BUILD, 'evidence-scratch')      # runs against a scratch tree (seedcheck) never touch the committed evidence
    os.makedirs(EVID, exist_ok=True)
    ev = dict(property_id=prop, tier=tier, seed=seed, level=level, coverage=coverage, assumptions=assumptions,
              wall_s=round(wall, 2), violations=violations)
    with open(os.path.join(EVID, prop + '.json'), 'w') as f:
        json.dump(ev, f, indent=1)

# ---------------------------------------------------------------- matcher drivers (C10, C11)

def probe_compile(exprs, work, std='c++14', prelude=''):
    """each expression in its own -fsyntax-only translation unit; returns list of (ok, output)"""
    os.makedirs(work, exist_ok=True)
    jobs = []
    for i, e in enumerate(exprs):
        src = os.path.join(work, 'probe_%d.cpp' % i)
        with open(src, 'w') as f:
            f.write('#include <trompeloeil.hpp>\n#include <vector>\n#include <list>\nusing trompeloeil::_;\n%s\n'
                    'bool probe_f(std::list<int>& l) { auto m = %s; return trompeloeil::param_matches(m, std::ref(l)); }\n' % (prelude, e))
        jobs.append((['g++', '-std=' + std, '-fsyntax-only', '-I' + INCLUDE, src], work))
    return [(rc == 0, out) for rc, out in compile_many(jobs)]

def build_match(what, tier, seed, skip=()):
    """driver evaluating the real matchers for the generated catalogue ('scalar' or 'range')"""
    import gen_match
    srcs = [os.path.join(HARNESS, 'gen_match.py')]
    h = tree_hash(srcs)
    if skip:
        h += '-' + hashlib.sha1(','.join(sorted(skip)).encode()).hexdigest()[:6]
    d = os.path.join(BUILD, 'match-%s-%s-%d-%s' % (what, tier, seed, h))
    exe = os.path.join(d, 'drv_match')
    with Lock(os.path.join(BUILD, 'match-%s.lock' % what)):
        if os.path.exists(exe):
            os.utime(d)
            return d
        t0 = time.time()
        shutil.rmtree(d, ignore_errors=True)
        n = gen_match.emit(d, what, tier, seed, skip)
        cpps = sorted(f for f in os.listdir(d) if f.endswith('.cpp'))
        flags = ['-std=c++14', '-O0', '-I' + INCLUDE]
        res = compile_many([(['g++'] + flags + ['-c', c, '-o', c + '.o'], d) for c in cpps])
        bad = [(c, r) for c, r in zip(cpps, res) if r[0] != 0]
        if bad:
            msg = bad[0][1]
            shutil.rmtree(d, ignore_errors=True)
            raise BuildError('matcher driver (%s) does not compile against the current /repo/include:\n%s' % (what, msg[-3000:]))
        p = subprocess.run(['g++'] + [c + '.o' for c in cpps] + ['-o', 'drv_match'], cwd=d,
                           stdout=subprocess.PIPE, stderr=subprocess.STDOUT, text=True)
        if p.returncode != 0:
            shutil.rmtree(d, ignore_errors=True)
            raise BuildError(p.stdout[-3000:])
        for c in cpps:
            os.unlink(os.path.join(d, c + '.o'))
        log('built %s matcher driver (%d terms) in %.0fs' % (what, n, time.time() - t0))
        prune_builds('match-%s-%s' % (what, tier), keep=2)
        return d

def validate_generic(module, cfg, norm_path, work, tag):
    verdict = os.path.join(work, tag + '.verdict')
    if os.path.exists(verdict):
        os.unlink(verdict)
    rc, out = tlc(module, cfg, work, env={'TRACE': norm_path, 'VERDICT': verdict}, workers=1, timeout=1800, java_opts='-Xmx6g')
    if rc != 0 or not os.path.exists(verdict):
        return dict(error='TLC rc=%d\n%s' % (rc, out[-1500:]))
    viol = [json.loads(l) for l in open(verdict) if l.strip()]
    if not viol or viol[-1]['field'] != 'END':
        return dict(error='validator did not finish')
    return dict(viol=viol[:-1], consumed=viol[-1]['got'])

def build_print(tier):
    import gen_print
    srcs = [os.path.join(HARNESS, 'gen_print.py')]
    h = tree_hash(srcs)
    d = os.path.join(BUILD, 'print-%s-%s' % (tier, h))
    exe = os.path.join(d, 'drv_print')
    with Lock(os.path.join(BUILD, 'print.lock')):
        if os.path.exists(exe):
            os.utime(d)
            return d
        shutil.rmtree(d, ignore_errors=True)
        gen_print.emit(d, tier)
        p = subprocess.run(['g++', '-std=c++14', '-O0', '-g', '-fsanitize=address,undefined', '-fno-sanitize-recover=undefined',
                            '-I' + INCLUDE, 'print.cpp', '-o', 'drv_print'], cwd=d, stdout=subprocess.PIPE, stderr=subprocess.STDOUT, text=True)
        if p.returncode != 0:
            shutil.rmtree(d, ignore_errors=True)
            raise BuildError('print driver does not compile against the current /repo/include:\n' + p.stdout[-3000:])
        prune_builds('print-%s' % tier, keep=2)
        return d

def build_coro(skip=()):
    """C++20 coroutine driver (ASan+UBSan, detect_stack_use_after_return), cached by content hash"""
    import gen_coro
    srcs = [os.path.join(HARNESS, 'gen_coro.py'), os.path.join(HARNESS, 'corodrv', 'crt.hpp'), os.path.join(HARNESS, 'corodrv', 'cmain.cpp'),
            os.path.join(HARNESS, 'coro', 'mini_coro.hpp')]
    h = tree_hash(srcs)
    if skip:
        h += '-' + hashlib.sha1(repr(sorted(skip)).encode()).hexdigest()[:6]
    d = os.path.join(BUILD, 'coro-' + h)
    exe = os.path.join(d, 'drv_coro')
    with Lock(os.path.join(BUILD, 'coro.lock')):
        if os.path.exists(exe):
            os.utime(d)
            return d
        t0 = time.time()
        shutil.rmtree(d, ignore_errors=True)
        gen_coro.main(d, set(skip))
        for f in ('crt.hpp', 'cmain.cpp'):
            shutil.copy(os.path.join(HARNESS, 'corodrv', f), d)
        shutil.copy(os.path.join(HARNESS, 'coro', 'mini_coro.hpp'), d)
        cpps = sorted(f for f in os.listdir(d) if f.endswith('.cpp'))
        flags = ['-std=c++20'] + SAN_FLAGS + ['-DTROMPELOEIL_SANITY_CHECKS', '-I' + INCLUDE]
        res = compile_many([(['g++'] + flags + ['-c', c, '-o', c + '.o'], d) for c in cpps])
        bad = [(c, r) for c, r in zip(cpps, res) if r[0] != 0]
        if bad:
            msg = bad[0][1][1]
            shutil.rmtree(d, ignore_errors=True)
            raise BuildError('coroutine driver does not compile against the current /repo/include:\n' + msg[-3000:])
        p = subprocess.run(['g++', '-fsanitize=address,undefined'] + [c + '.o' for c in cpps] + ['-o', 'drv_coro'], cwd=d,
                           stdout=subprocess.PIPE, stderr=subprocess.STDOUT, text=True)
        if p.returncode != 0:
            shutil.rmtree(d, ignore_errors=True)
            raise BuildError(p.stdout[-3000:])
        for c in cpps:
            os.unlink(os.path.join(d, c + '.o'))
        log('built coroutine driver in %.0fs' % (time.time() - t0))
        prune_builds('coro')
        return d

def build_c09(tier):
    import gen_c09
    srcs = [os.path.join(HARNESS, 'gen_c09.py')]
    h = tree_hash(srcs)
    d = os.path.join(BUILD, 'c09-%s-%s' % (tier, h))
    exe = os.path.join(d, 'drv_c09')
    with Lock(os.path.join(BUILD, 'c09.lock')):
        if os.path.exists(exe):
            os.utime(d)
            return d
        t0 = time.time()
        shutil.rmtree(d, ignore_errors=True)
        n = gen_c09.emit(d, tier)
        cpps = sorted(f for f in os.listdir(d) if f.endswith('.cpp'))
        flags = ['-std=c++14', '-O0', '-g1', '-fsanitize=address,undefined', '-fno-sanitize-recover=undefined', '-I' + INCLUDE]
        res = compile_many([(['g++'] + flags + ['-c', c, '-o', c + '.o'], d) for c in cpps])
        bad = [(c, r) for c, r in zip(cpps, res) if r[0] != 0]
        if bad:
            msg = bad[0][1][1]
            shutil.rmtree(d, ignore_errors=True)
            raise BuildError('C09 program family does not compile against the current /repo/include (%s):\n%s' % (bad[0][0], msg[-3000:]))
        p = subprocess.run(['g++', '-fsanitize=address,undefined'] + [c + '.o' for c in cpps] + ['-o', 'drv_c09'], cwd=d,
                           stdout=subprocess.PIPE, stderr=subprocess.STDOUT, text=True)
        if p.returncode != 0:
            shutil.rmtree(d, ignore_errors=True)
            raise BuildError(p.stdout[-3000:])
        for c in cpps:
            os.unlink(os.path.join(d, c + '.o'))
        log('built C09 family (%d cases) in %.0fs' % (n, time.time() - t0))
        prune_builds('c09-%s' % tier)
        return d

def build_conc():
    """concurrent driver: TSan + custom recursive mutex seam + verification hooks"""
    ensure_shapes_tla()
    srcs = [os.path.join(HARNESS, 'seq', 'rt.hpp'), os.path.join(HARNESS, 'conc', 'cmain_conc.cpp'),
            os.path.join(HARNESS, 'shapes.py'), os.path.join(HARNESS, 'gen_seq.py')]
    h = tree_hash(srcs)
    d = os.path.join(BUILD, 'conc-' + h)
    exe = os.path.join(d, 'drv_conc')
    with Lock(os.path.join(BUILD, 'conc.lock')):
        if os.path.exists(exe):
            os.utime(d)
            return d
        t0 = time.time()
        shutil.rmtree(d, ignore_errors=True)
        os.makedirs(d)
        subprocess.run([sys.executable, os.path.join(HARNESS, 'gen_seq.py'), d], check=True, stdout=subprocess.DEVNULL)
        shutil.copy(os.path.join(HARNESS, 'seq', 'rt.hpp'), d)
        shutil.copy(os.path.join(HARNESS, 'conc', 'cmain_conc.cpp'), d)
        cpps = sorted(f for f in os.listdir(d) if f.endswith('.cpp'))
        flags = ['-std=c++14', '-O1', '-g1', '-fsanitize=thread', '-fno-omit-frame-pointer', '-pthread',
                 '-DTROMPELOEIL_CUSTOM_RECURSIVE_MUTEX', '-DROLLBEAR_TROMPELOEIL_VERIF', '-DTROMPELOEIL_SANITY_CHECKS', '-I' + INCLUDE]
        res = compile_many([(['g++'] + flags + ['-c', c, '-o', c + '.o'], d) for c in cpps])
        bad = [(c, r) for c, r in zip(cpps, res) if r[0] != 0]
        if bad:
            msg = bad[0][1][1]
            shutil.rmtree(d, ignore_errors=True)
            raise BuildError('concurrent driver does not compile against the current /repo/include (hooks missing?):\n' + msg[-3000:])
        p = subprocess.run(['g++', '-fsanitize=thread', '-pthread'] + [c + '.o' for c in cpps] + ['-o', 'drv_conc'], cwd=d,
                           stdout=subprocess.PIPE, stderr=subprocess.STDOUT, text=True)
        if p.returncode != 0:
            shutil.rmtree(d, ignore_errors=True)
            raise BuildError(p.stdout[-3000:])
        for c in cpps:
            os.unlink(os.path.join(d, c + '.o'))
        log('built concurrent driver in %.0fs' % (time.time() - t0))
        prune_builds('conc')
        return d
