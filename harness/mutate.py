#!/usr/bin/env python3
"""Mechanical mutation survey: one-token mutants of the library headers, each run against the quick checks
of the properties its file / region belongs to (through harness/seedcheck.py, scratch worktree).
Not part of any registered check; used to look for gaps.   mutate.py gen <outdir> ; mutate.py run <outdir> <log>"""
import os, re, subprocess, sys, random

REPO = '/tmp/mutgen-repo'      # mutants are made in a scratch worktree, never in /repo itself
# (file, first line, last line, properties whose checks should notice)
REGIONS = [
    ('include/trompeloeil/sequence.hpp', 88, 420, ['C05', 'C06', 'C02']),
    ('include/trompeloeil/lifetime.hpp', 45, 175, ['C13', 'C05', 'C14']),
    ('include/trompeloeil/mock.hpp', 1995, 2015, ['C04', 'C14']),       # decommission
    ('include/trompeloeil/mock.hpp', 2320, 2400, ['C02', 'C15', 'C03']),  # find, report_mismatch
    ('include/trompeloeil/mock.hpp', 2890, 2940, ['C04', 'C07']),       # report_unfulfilled, report_forbidden
    ('include/trompeloeil/mock.hpp', 2975, 3160, ['C01', 'C04', 'C08', 'C15', 'C03']),  # call_matcher
    ('include/trompeloeil/mock.hpp', 3385, 3425, ['C01', 'C17', 'C16']),  # mock_func
    ('include/trompeloeil/mock.hpp', 745, 800, ['C17', 'C16']),           # tracer, reporters
    ('include/trompeloeil/mock.hpp', 1770, 1810, ['C03', 'C07']),         # sequence_handler_base
    ('include/trompeloeil/mock.hpp', 2250, 2320, ['C17']),                # trace_agent
    ('include/trompeloeil/mock.hpp', 1100, 1300, ['C18']),                # printing
    ('include/trompeloeil/matcher/compare.hpp', 20, 160, ['C10']),
    ('include/trompeloeil/matcher/set_predicate.hpp', 20, 160, ['C10']),
    ('include/trompeloeil/matcher/deref.hpp', 20, 80, ['C10']),
    ('include/trompeloeil/matcher/not.hpp', 20, 80, ['C10']),
    ('include/trompeloeil/matcher/re.hpp', 20, 148, ['C10']),
    ('include/trompeloeil/matcher/range.hpp', 30, 830, ['C11']),
    ('include/trompeloeil/coro.hpp', 120, 330, ['C20']),
]
SWAPS = [(' == ', ' != '), (' != ', ' == '), (' < ', ' <= '), (' <= ', ' < '), (' > ', ' >= '), (' >= ', ' > '),
         (' && ', ' || '), (' || ', ' && '), ('++', '--'), (' = true;', ' = false;'), (' = false;', ' = true;'),
         ('return true;', 'return false;'), ('return false;', 'return true;'), ('push_back(', 'push_front('), ('push_front(', 'push_back('),
         ('.begin()', '.end()'), ('severity::fatal', 'severity::nonfatal'), ('severity::nonfatal', 'severity::fatal')]
DELETABLE = re.compile(r'^\s*(\w[\w>\-\.:\*\(\)]*\((?:[^;{}]*)\);|\w[\w>\-\.]*\s*=\s*[^;{}]+;|break;|return;|\+\+\w+;)\s*(//.*)?$')

def gen(outdir):
    os.makedirs(outdir, exist_ok=True)
    subprocess.run(['git', '-C', '/repo', 'worktree', 'remove', '--force', REPO], stdout=subprocess.DEVNULL, stderr=subprocess.DEVNULL)
    subprocess.check_call(['git', '-C', '/repo', 'worktree', 'add', '--detach', REPO, 'HEAD'], stdout=subprocess.DEVNULL, stderr=subprocess.DEVNULL)
    try:
        _gen(outdir)
    finally:
        subprocess.run(['git', '-C', '/repo', 'worktree', 'remove', '--force', REPO], stdout=subprocess.DEVNULL, stderr=subprocess.DEVNULL)

REGION_BASE = '3d53fcd'      # the line numbers of REGIONS refer to this commit; they are mapped to the current HEAD

def map_lines(f):
    import difflib
    old = subprocess.run(['git', '-C', '/repo', 'show', '%s:%s' % (REGION_BASE, f)], stdout=subprocess.PIPE, text=True).stdout.split('\n')
    new = open(os.path.join(REPO, f)).read().split('\n')
    m = {}
    for tag, i1, i2, j1, j2 in difflib.SequenceMatcher(None, old, new, autojunk=False).get_opcodes():
        if tag == 'equal':
            for k in range(i2 - i1):
                m[i1 + k + 1] = j1 + k + 1
    def f_(ln):
        while ln not in m and ln > 1:
            ln -= 1
        return m.get(ln, ln)
    return f_

def _gen(outdir):
    n = 0
    index = []
    for (f, a, b, props) in REGIONS:
        path = os.path.join(REPO, f)
        lines = open(path).read().split('\n')
        mp = map_lines(f)
        a, b = mp(a), mp(b)
        for ln in range(a - 1, min(b, len(lines))):
            L = lines[ln]
            if 'TROMPELOEIL_VERIF' in L or 'static_assert' in L or L.strip().startswith(('//', '#', '*', 'template', 'typename', 'using ')) or 'TROMPELOEIL_VERIF_EVENT' in L:
                continue
            muts = []
            for (x, y) in SWAPS:
                if x in L:
                    muts.append(L.replace(x, y, 1))
            if DELETABLE.match(L) and 'lock' not in L:
                muts.append(re.match(r'^\s*', L).group(0) + ';')
            for m in muts:
                new = lines[:ln] + [m] + lines[ln + 1:]
                open(path, 'w').write('\n'.join(new))
                d = subprocess.check_output(['git', '-C', REPO, 'diff']).decode()
                subprocess.check_call(['git', '-C', REPO, 'checkout', '--', '.'])
                n += 1
                name = 'm%04d' % n
                sub = os.path.join(outdir, name)
                os.makedirs(sub, exist_ok=True)
                open(os.path.join(sub, 'patch.diff'), 'w').write(d)
                index.append('%s %s:%d %s | %s -> %s' % (name, f, ln + 1, ','.join(props), L.strip()[:60], m.strip()[:60]))
    open(os.path.join(outdir, 'INDEX.txt'), 'w').write('\n'.join(index) + '\n')
    print(n, 'mutants')

def run(outdir, log, sample=None, seed=1):
    idx = [l for l in open(os.path.join(outdir, 'INDEX.txt')).read().split('\n') if l]
    if sample:
        random.Random(seed).shuffle(idx)
        idx = idx[:int(sample)]
    with open(log, 'a') as g:
        for l in idx:
            name = l.split()[0]
            props = l.split()[2].split(',')[:2]
            p = subprocess.run([sys.executable, os.path.join(os.path.dirname(os.path.abspath(__file__)), 'seedcheck.py'),
                                os.path.join(outdir, name, 'patch.diff')] + props, stdout=subprocess.PIPE, stderr=subprocess.STDOUT, text=True)
            verdicts = [x.split(': ')[1].split()[0] for x in p.stdout.splitlines() if re.match(r'^m\d+ C\d+: ', x)]
            v = 'DETECTED' if 'DETECTED' in verdicts else ('ERROR' if 'ERROR' in verdicts or not verdicts else 'MISSED')
            g.write('%s %s %s\n' % (v, verdicts, l)); g.flush()

if __name__ == '__main__':
    if sys.argv[1] == 'gen':
        gen(sys.argv[2])
    else:
        run(sys.argv[2], sys.argv[3], *(sys.argv[4:]))
