#!/usr/bin/env python3
"""Markdown table of the seeded changes (seeded/*/meta.json), for DESIGN.md section 12"""
import json, os, sys
root = os.path.join(os.path.dirname(os.path.dirname(os.path.abspath(__file__))), 'seeded')
rows = []
for d in sorted(os.listdir(root)):
    m = os.path.join(root, d, 'meta.json')
    if os.path.exists(m):
        x = json.load(open(m))
        hist = x.get('history', '')
        rows.append('| %s | %s | %s | %s | %s |' % (x['id'], x['change'].replace('|', '\\|'), x['needs'].replace('|', '\\|'), ', '.join(x['detected_by']),
                                                   ('**initially missed** - ' + hist) if hist else 'detected at first run'))
print('| id | change | needs | caught by (quick) | history |\n|---|---|---|---|---|')
print('\n'.join(rows))
