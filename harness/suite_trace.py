#!/usr/bin/env python3
"""Normaliser for traces of the repository's OWN test programs (self_test, thread_terror) recorded through the
guarded verification hooks (harness/suite/sink.cpp): raw "name pointer value" lines -> fixed-schema ndjson events
for spec/TraceGeneric.tla.  Pure projection: pointers become small integers (one id per object lifetime), the event
groups the library emits inside one critical section are folded into one record; nothing about expected behaviour
is computed here.

events (all fields always present):  e, x (expectation id), l (list id), v, lo, hi, cands [[id, cost]], f
  Case                      a Catch2 test case starts (state is reset: everything of the previous case is gone)
  link   x l lo hi          expectation x hooked at the front of list l with bounds lo..hi (hi = -1: unbounded)
  find   l cands f          one search of list l: candidates visited in order with verdicts (-1 no match, else cost;
                            1000000 = not callable), f = the expectation chosen (0: none)
  handled x v l             x handled the call, its count is now v; l != 0: it was moved to saturated list l
  forbidden x               the chosen expectation is a forbidding one (reported, fatal report follows)
  reported x                x was named in a violation report (its own end-of-life report is suppressed from now on)
  dtor   x v                x is being destroyed; v = the library's verdict "unfulfilled" (1 -> a report follows)
  mockdead x v              x's mock object is being destroyed; v as above
  decom  l                  list l was decommissioned (all its expectations unlinked)
  report v k                a violation report was sent; v: 0 fatal, 1 non-fatal; k: 1 unfulfilled / pending, 2 forbidden call,
                            3 no match, 4 sequence mismatch, 0 any other (lifetime monitors, sequence tear-down)
  move   l l2               the expectations of list l were moved to the new list l2 (mock object move-constructed)
"""
import json, sys

INF = 1000000
BLANK = dict(e='', x=0, l=0, v=0, lo=0, hi=0, cands=[], f=0, id='', k=0, l2=0)

def normalize(raw_path, out_path):
    exp_id, list_id = {}, {}
    nexp, nlist = [0], [0]
    out = []
    def ev(**k):
        d = dict(BLANK); d.update(k); out.append(d)
    def xid(p, fresh=False):
        if fresh or p not in exp_id:
            nexp[0] += 1; exp_id[p] = nexp[0]
        return exp_id[p]
    def lid(p, create=True):
        if p not in list_id:
            if not create:
                return 0
            nlist[0] += 1; list_id[p] = nlist[0]
        return list_id[p]
    lines = [l.rstrip('\n') for l in open(raw_path, errors='replace')]
    i = 0
    finds = []          # stack of open searches (a matcher may itself call a mock function)
    pend_link = None
    pend_sat = None
    pend_kind = 0
    pend_move = None
    while i < len(lines):
        line = lines[i]; i += 1
        if line.startswith('case '):
            ev(e='Case', id=line[5:][:80])
            exp_id.clear(); list_id.clear(); finds.clear(); pend_link = None; pend_sat = None
            nexp[0] = 0; nlist[0] = 0
            continue
        parts = line.split(' ')
        if len(parts) != 3:
            continue
        n, p, v = parts[0], parts[1], int(parts[2])
        if n == 'g_link':
            pend_link = dict(x=xid(p, fresh=True), l=0, lo=0, hi=0, stage=0)
        elif n == 'g_rkind':
            pend_kind = v
        elif n == 'g_move':
            pend_move = lid(p, create=False)
            list_id.pop(p, None)
        elif n == 'g_list' and pend_move is not None:
            if pend_move:
                ev(e='move', l=pend_move, l2=lid(p))
            pend_move = None
        elif n == 'g_list':
            if pend_sat is not None:
                pend_sat['l'] = lid(p)
            elif pend_link is not None:
                pend_link['l'] = lid(p)
        elif n == 'g_lo' and pend_link is not None:
            pend_link['lo'] = v
        elif n == 'g_hi' and pend_link is not None:
            pend_link['hi'] = v
            ev(e='link', x=pend_link['x'], l=pend_link['l'], lo=pend_link['lo'], hi=pend_link['hi'])
            pend_link = None
        elif n == 'g_find':
            finds.append(dict(l=lid(p), cands=[]))
        elif n == 'g_cand' and finds:
            finds[-1]['cands'].append([xid(p), -1 if v < 0 else (INF if v >= 4294967295 else min(v, INF - 1))])
        elif n == 'g_found' and finds:
            f = finds.pop()
            ev(e='find', l=f['l'], cands=f['cands'], f=0 if p in ('(nil)', '0x0', '0') else xid(p))
        elif n == 'g_sat':
            pend_sat = dict(x=xid(p), l=0)
        elif n == 'g_count':
            x = xid(p)
            ev(e='handled', x=x, v=v, l=pend_sat['l'] if pend_sat and pend_sat['x'] == x else 0)
            pend_sat = None
        elif n == 'g_forbidden':
            ev(e='forbidden', x=xid(p))
        elif n == 'g_reported':
            ev(e='reported', x=xid(p))
        elif n == 'g_dtor':
            ev(e='dtor', x=xid(p), v=v)
        elif n == 'exp_dtor':
            exp_id.pop(p, None)
        elif n == 'g_mockdead':
            ev(e='mockdead', x=xid(p), v=v)
        elif n == 'mock_dtor':
            l = lid(p, create=False)
            if l:
                ev(e='decom', l=l)
                list_id.pop(p, None)
        elif n == 'g_report':
            ev(e='report', v=v, k=pend_kind)
            pend_kind = 0
    with open(out_path, 'w') as g:
        for d in out:
            g.write(json.dumps(d, separators=(',', ':')) + '\n')
    return len(out)

if __name__ == '__main__':
    print(normalize(sys.argv[1], sys.argv[2]))
