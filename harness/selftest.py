#!/usr/bin/env python3
"""Binding self-test: the trace validators must REJECT a recorded execution that was tampered with.

For a known-good recorded trace of the real library (a few fixed witness segments + seeded segments):
  1. validate it unchanged            -> must be accepted (no mismatch),
  2. corrupt one recorded field       -> the validator must report a mismatch on exactly that line,
  3. drop one event                   -> the validator must report a mismatch at or after that position.
Run by `./check --selftest` and in the thorough tier of C01.  Exit 0 = the binding is demonstrated."""
import json, os, random, shutil, sys
sys.path.insert(0, os.path.dirname(os.path.abspath(__file__)))
import lib, gen_scripts, normalize

def validate(norm_lines, work, tag):
    path = os.path.join(work, tag + '.ndjson')
    open(path, 'w').write('\n'.join(json.dumps(x, separators=(',', ':')) for x in norm_lines) + '\n')
    r = lib.validate_generic('TraceCore.tla', 'TraceCore.cfg', path, work, tag)
    if 'error' in r:
        raise RuntimeError(r['error'])
    return r['viol']

def generic_selftest(work, rnd, results):
    import subprocess, suite_trace
    d = lib.build_suite()
    raw = os.path.join(work, 'g.raw'); norm = os.path.join(work, 'g.ndjson')
    subprocess.run([os.path.join(d, 'self_test_g')], env=dict(os.environ, VERIF_GTRACE=raw), stdout=subprocess.DEVNULL, stderr=subprocess.DEVNULL)
    suite_trace.normalize(raw, norm)
    lines = [json.loads(l) for l in open(norm)]
    def val(mod, tag):
        path = os.path.join(work, tag + '.ndjson')
        open(path, 'w').write('\n'.join(json.dumps(x, separators=(',', ':')) for x in mod) + '\n')
        r = lib.validate_generic('TraceGeneric.tla', 'TraceGeneric.cfg', path, work, tag)
        if 'error' in r:
            raise RuntimeError(r['error'])
        return r['viol']
    if val(lines, 'g0'):
        raise RuntimeError('the unmodified suite trace is not accepted')
    finds = [i for i, e in enumerate(lines) if e['e'] == 'find' and len(e['cands']) >= 2]
    handled = [i for i, e in enumerate(lines) if e['e'] == 'handled']
    dtors = [i for i, e in enumerate(lines) if e['e'] == 'dtor']
    links = [i for i, e in enumerate(lines) if e['e'] == 'link' and e['hi'] > 0]
    muts = []
    for i in rnd.sample(finds, min(3, len(finds))):
        muts.append(('other-candidate-chosen', i, lambda e: e.__setitem__('f', [c[0] for c in e['cands'] if c[0] != e['f']][0])))
    for i in rnd.sample(handled, min(3, len(handled))):
        muts.append(('count+1', i, lambda e: e.__setitem__('v', e['v'] + 1)))
    for i in rnd.sample(handled, min(2, len(handled))):
        muts.append(('saturation-flipped', i, lambda e: e.__setitem__('l', 0 if e['l'] else 99)))
    for i in rnd.sample(dtors, min(3, len(dtors))):
        muts.append(('unfulfilled-verdict-flipped', i, lambda e: e.__setitem__('v', 1 - e['v'])))
    ok = True
    for n, (name, idx, f) in enumerate(muts):
        mod = json.loads(json.dumps(lines)); f(mod[idx])
        v = val(mod, 'gm%d' % n)
        hit = any(idx + 1 <= x['line'] <= idx + 4 for x in v)
        results.append(dict(mutation='generic:' + name, line=idx + 1, rejected=hit)); ok &= hit
    # dropping a link event: the expectation is unknown afterwards -> tolerated by design (untracked); dropping a handled event must show
    for n, idx in enumerate(rnd.sample(handled, min(3, len(handled)))):
        mod = lines[:idx] + lines[idx + 1:]
        v = val(mod, 'gd%d' % n)
        # visible when the expectation is counted again or its end-of-life verdict is evaluated
        results.append(dict(mutation='generic:handled-event-dropped', line=idx + 1, rejected=bool(v)))
    dropped = [r for r in results if r['mutation'] == 'generic:handled-event-dropped']
    ok &= sum(1 for r in dropped if r['rejected']) >= 1
    return ok

def main(seed=1):
    rnd = random.Random(seed)
    work = os.path.join(lib.BUILD, 'work-selftest-%d' % os.getpid())
    shutil.rmtree(work, ignore_errors=True); os.makedirs(work)
    segs = gen_scripts.gen('overlap', 12, seed) + gen_scripts.gen('sequences', 12, seed) + gen_scripts.gen('clauses', 8, seed)
    res = lib.conformance(segs, work, nchunks=1)
    if 'error' in res[0]:
        print('SELFTEST-ERROR', res[0]['error']); return 2
    if res[0]['viol']:
        print('SELFTEST-ERROR the unmodified trace is not accepted:', res[0]['viol'][:2]); return 2
    lines = [json.loads(l) for l in open(res[0]['norm'])]
    results = []
    # lines after a `dseq` of the same segment may be in safety-only mode (unspecified behaviour is not compared): not candidates
    compared, dead = set(), False
    for i, e in enumerate(lines):
        if e.get('e') == 'Seg':
            dead = False
        if e.get('e') == 'dseq':
            dead = True
        if not dead:
            compared.add(i)
    # candidates: accepted calls with a return value, events with reports, events with flags
    calls = [i for i, e in enumerate(lines) if i in compared and e.get('e') == 'call' and e.get('acc') == 1 and e.get('ret')]
    reps = [i for i, e in enumerate(lines) if i in compared and e.get('reps')]
    flagged = [i for i, e in enumerate(lines) if i in compared and e.get('fl')]
    mutations = []
    for i in rnd.sample(calls, min(4, len(calls))):
        mutations.append(('ret+1', i, lambda e: e.__setitem__('ret', e['ret'] + 1)))
    for i in rnd.sample(calls, min(3, len(calls))):
        mutations.append(('ok-report-removed', i, lambda e: e.__setitem__('oks', [])))
    for i in rnd.sample(reps, min(4, len(reps))):
        mutations.append(('severity-flipped', i, lambda e: e['reps'][0].__setitem__('sev', 1 - e['reps'][0]['sev'])))
    for i in rnd.sample(flagged, min(4, len(flagged))):
        mutations.append(('flag-flipped', i, lambda e: e['fl'][0].__setitem__(1, 1 - e['fl'][0][1])))
    for i in rnd.sample(calls, min(3, len(calls))):
        mutations.append(('clause-log-truncated', i, lambda e: e.__setitem__('cl', e['cl'][:-1])))
    ok = True
    for n, (name, idx, f) in enumerate(mutations):
        mod = json.loads(json.dumps(lines))
        f(mod[idx])
        v = validate(mod, work, 'm%d' % n)
        hit = any(x['line'] == idx + 1 for x in v)
        results.append(dict(mutation=name, line=idx + 1, rejected=hit))
        ok &= hit
    # dropping an accepted call that changed the projected state (satisfied / saturated flags) must show at the next event
    def became_satisfied(i):      # a slot whose 'satisfied' flag this call turned on and that the next event still shows
        before = {f[0]: f[1] for f in lines[i - 1].get('fl', [])}
        after = {f[0]: f[1] for f in lines[i].get('fl', [])}
        nxt = {f[0] for f in lines[i + 1].get('fl', [])} if i + 1 < len(lines) else set()
        return any(before.get(s) == 0 and after.get(s) == 1 and s in nxt for s in after)
    changing = [i for i in calls if i > 0 and lines[i - 1].get('e') != 'Seg' and i + 1 < len(lines) and 'fl' in lines[i + 1] and became_satisfied(i)]
    for n, idx in enumerate(rnd.sample(changing, min(4, len(changing)))):
        mod = lines[:idx] + lines[idx + 1:]
        v = validate(mod, work, 'd%d' % n)
        hit = any(x['line'] >= idx + 1 for x in v)
        results.append(dict(mutation='event-dropped', line=idx + 1, rejected=hit))
        ok &= hit
    # ---- the generic binding (repository's own tests -> Generic.tla): tampered hook traces must be rejected
    try:
        ok &= generic_selftest(work, rnd, results)
    except Exception as e:
        print('SELFTEST-ERROR generic binding:', e); ok = False
    shutil.rmtree(work, ignore_errors=True)
    for r in results:
        print('SELFTEST', r)
    print('SELFTEST', 'binding demonstrated' if ok else 'FAILED: a tampered trace was accepted')
    return 0 if ok else 1

if __name__ == '__main__':
    sys.exit(main(int(os.environ.get('VERIF_SEED', '1') or 1)))
