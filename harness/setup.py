#!/usr/bin/env python3
"""MANIFEST.setup_cmd: build everything the checks need from files on disk (offline)."""
import os, subprocess, sys
sys.path.insert(0, os.path.dirname(os.path.abspath(__file__)))
import lib

def main():
    subprocess.run([sys.executable, os.path.join(lib.HARNESS, 'gen_shapes_tla.py'), os.path.join(lib.SPEC, 'Shapes.tla')], check=True)
    lib.build_seq()
    try:
        import builders
        builders.build_all()
    except ImportError:
        pass
    print('setup ok')

if __name__ == '__main__':
    main()
