// Event sink for the repository's OWN test programs (self_test, thread_terror) built with
// -DROLLBEAR_TROMPELOEIL_VERIF: every verification hook event is appended to the file named by
// VERIF_GTRACE ("name pointer value" per line; "case <name>" at every Catch2 test case start).
// Nothing is interpreted here; harness/suite_trace.py normalises, Generic.tla judges.
#include <trompeloeil.hpp>
#include <cstdio>
#include <cstdlib>
#include <mutex>

namespace {
FILE* g_out = nullptr;
long g_left = -1;               // VERIF_GTRACE_MAX: stop recording after this many lines (a prefix of the execution)
std::mutex g_mx;                 // events outside the library lock (reports from unlocked paths) still get whole lines
void sink(char const* name, void const* obj, long v)
{
  if (!g_out) return;
  std::lock_guard<std::mutex> l(g_mx);
  if (g_left == 0) return;
  if (g_left > 0) --g_left;
  std::fprintf(g_out, "%s %p %ld\n", name, obj, v);
}
struct Init {
  Init()
  {
    if (char const* p = std::getenv("VERIF_GTRACE")) {
      g_out = std::fopen(p, "w");
      if (g_out) std::setvbuf(g_out, nullptr, _IOFBF, 1 << 20);
      if (char const* m = std::getenv("VERIF_GTRACE_MAX")) g_left = std::atol(m);
    }
    trompeloeil::verif::event_sink() = sink;
  }
  ~Init() { if (g_out) { std::fflush(g_out); } }
} g_init;
}

#ifdef VERIF_WITH_CATCH2
#define CATCH_CONFIG_EXTERNAL_INTERFACES
#include <catch2/catch.hpp>
namespace {
struct CaseListener : Catch::TestEventListenerBase {
  using TestEventListenerBase::TestEventListenerBase;
  void testCaseStarting(Catch::TestCaseInfo const& info) override
  {
    if (!g_out) return;
    std::lock_guard<std::mutex> l(g_mx);
    std::fprintf(g_out, "case %s\n", info.name.c_str());
  }
};
}
CATCH_REGISTER_LISTENER(CaseListener)
#endif
