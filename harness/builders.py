"""build every cached driver the quick checks need (called from setup.py)"""
import lib
def build_all():
    lib.build_seq()
    lib.build_print('quick')
    lib.build_match('scalar', 'quick', 1)
    lib.build_match('range', 'quick', 1)
    lib.build_coro()
    lib.build_c09('quick')
    lib.build_conc()
    lib.build_suite()                        # the repository's own test programs with hooks
    lib.build_suite('c++11')
    import checks
    checks.teardown_segments('quick', 1)     # TLC-generated tear-down orders (cached by spec hash)
