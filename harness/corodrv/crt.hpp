// Runtime of the coroutine conformance driver (C20).  C++20.
#pragma once
#include <trompeloeil.hpp>
#include "mini_coro.hpp"
#include <memory>
#include <optional>
#include <stdexcept>
#include <string>
#include <vector>
namespace cdrv {
constexpr int NSLOT = 3, NINST = 4;
struct Cfg { int kind = 0, ny = 0, retk = 0; int y[3] = {0, 0, 0}; int ythrow = 0; int retv = 0; int lo = 1, hi = 1; };
extern Cfg cfg[NSLOT + 1];
struct CMock {
  MAKE_MOCK0(ce, (vt::ytask<int, false>()));
  MAKE_MOCK0(cl, (vt::ytask<int, true>()));
  MAKE_MOCK0(cg, (vt::gen<int>()));
  MAKE_MOCK0(cv, (vt::task<void, false>()));
  MAKE_MOCK0(clv, (vt::task<void, true>()));
  MAKE_MOCK1(cl1, (vt::ytask<int, true>(int)));      // arity 1: only used by the witness of known finding D12
  // arity 15, eager start: the clause evaluated DURING the call may read its parameters (op cargs: _1.._15 in CO_ clauses)
  MAKE_MOCK15(ca, (vt::ytask<int, false>(int, int, int, int, int, int, int, int, int, int, int, int, int, int, int)));
};
extern std::unique_ptr<CMock> mk;
extern std::unique_ptr<trompeloeil::expectation> exps[NSLOT + 1];
void logc(int kind, int slot, int idx);     // 3 side effect, 5 yield expr, 6 co_return expr, 7 co_throw expr
inline size_t ub(int hi) { return hi >= 99 ? ~static_cast<size_t>(0) : static_cast<size_t>(hi); }
inline void CSE(int s) { logc(3, s, 0); }
inline int YV(int s, int k) { logc(5, s, k); if (cfg[s].ythrow == k) throw std::runtime_error("yt" + std::to_string(s) + "." + std::to_string(k)); return cfg[s].y[k - 1]; }
inline int CRV(int s) { logc(6, s, 0); return cfg[s].retv; }
inline void CRVV(int s) { logc(6, s, 0); }
inline std::runtime_error CTH(int s) { logc(7, s, 0); return std::runtime_error("th" + std::to_string(s)); }
inline int CRT(int s) { logc(6, s, 0); throw std::runtime_error("rt" + std::to_string(s)); }
inline void CRTV(int s) { logc(6, s, 0); throw std::runtime_error("rt" + std::to_string(s)); }
bool make_cexp(int slot, int kind, int ny, int retk, int ord);
}
