// Coroutine conformance driver (C20): op-script interpreter + per-segment fork runner.
#include "crt.hpp"
#include <fcntl.h>
#include <sys/wait.h>
#include <unistd.h>
#include <cstdio>
#include <fstream>
#include <sstream>
namespace cdrv {
Cfg cfg[NSLOT + 1];
std::unique_ptr<CMock> mk;
std::unique_ptr<trompeloeil::expectation> exps[NSLOT + 1];
struct Fatal {};
struct Rep { int sev; std::string msg; };
static std::vector<Rep> reps;
static std::vector<std::string> oks;
struct Cl { int k, s, i; };
static std::vector<Cl> cls;
static FILE* out;
static bool quiet = false;
void logc(int kind, int slot, int idx) { cls.push_back({kind, slot, idx}); }

using TE = vt::ytask<int, false>; using TL = vt::ytask<int, true>; using TG = vt::gen<int>;
using TV = vt::task<void, false>; using TLV = vt::task<void, true>;
struct Inst { int kind = 0; std::optional<TE> e; std::optional<TL> l; std::optional<TG> g; std::optional<TV> v; std::optional<TLV> lv;
  void clear() { e.reset(); l.reset(); g.reset(); v.reset(); lv.reset(); kind = 0; } };
static Inst inst[NINST + 1];

static std::string jesc(std::string const& s) { std::string o; for (unsigned char c : s) { if (c == '"') o += "\\\""; else if (c == '\\') o += "\\\\"; else if (c == '\n') o += "\\n"; else if (c < 0x20) o += ' '; else o += char(c); } return o; }

template <typename H> static void status_y(H h, int& st, int& cur, std::string& ex) {
  auto& p = h.promise();
  if (h.done()) { if (p.ex) { st = 3; try { std::rethrow_exception(p.ex); } catch (std::exception const& e) { ex = e.what(); } catch (...) { ex = "unknown"; } } else { st = 2; } }
  else st = p.cur ? 1 : 0;
  if (p.cur) cur = *p.cur;
}
static void status(Inst& in, int& st, int& cur, int& val, std::string& ex) {
  st = -1; cur = 0; val = 0; ex.clear();
  switch (in.kind) {
  case 1: status_y(in.e->h, st, cur, ex); if (st == 2 && in.e->h.promise().value) val = *in.e->h.promise().value; break;
  case 2: status_y(in.l->h, st, cur, ex); if (st == 2 && in.l->h.promise().value) val = *in.l->h.promise().value; break;
  case 3: status_y(in.g->h, st, cur, ex); break;
  case 4: case 5: {
    bool done = in.kind == 4 ? in.v->h.done() : in.lv->h.done();
    std::exception_ptr e = in.kind == 4 ? in.v->h.promise().ex : in.lv->h.promise().ex;
    bool returned = in.kind == 4 ? in.v->h.promise().returned : in.lv->h.promise().returned;
    if (done) { if (e) { st = 3; try { std::rethrow_exception(e); } catch (std::exception const& x) { ex = x.what(); } catch (...) { ex = "unknown"; } } else { st = 2; val = returned ? 1 : 0; } }
    else st = 0;
    break; }
  }
}
static void emit(char const* op, std::vector<int> const& a, int acc, std::string const& thr, int skip, int ii) {
  std::ostringstream o;
  o << "{\"e\":\"" << op << "\",\"a\":[";
  for (size_t i = 0; i < a.size(); ++i) o << (i ? "," : "") << a[i];
  o << "],\"skip\":" << skip << ",\"acc\":" << acc << ",\"thr\":\"" << jesc(thr) << "\",\"reps\":[";
  for (size_t i = 0; i < reps.size(); ++i) o << (i ? "," : "") << "{\"sev\":" << reps[i].sev << ",\"msg\":\"" << jesc(reps[i].msg) << "\"}";
  o << "],\"noks\":" << oks.size() << ",\"cl\":[";
  for (size_t i = 0; i < cls.size(); ++i) o << (i ? "," : "") << "[" << cls[i].k << "," << cls[i].s << "," << cls[i].i << "]";
  o << "],\"ist\":";
  if (ii >= 1 && ii <= NINST && inst[ii].kind) { int st, cur, val; std::string ex; status(inst[ii], st, cur, val, ex); o << "{\"st\":" << st << ",\"cur\":" << cur << ",\"val\":" << val << ",\"ex\":\"" << jesc(ex) << "\"}"; }
  else o << "{\"st\":-1,\"cur\":0,\"val\":0,\"ex\":\"\"}";
  o << ",\"fl\":[";
  bool first = true;
  for (int s = 1; s <= NSLOT; ++s) if (exps[s]) { o << (first ? "" : ",") << "[" << s << "," << int(exps[s]->is_satisfied()) << "," << int(exps[s]->is_saturated()) << "]"; first = false; }
  o << "]}\n";
  std::string s = o.str(); fwrite(s.data(), 1, s.size(), out); fflush(out);
  reps.clear(); oks.clear(); cls.clear();
}
static void run_op(std::string const& line) {
  std::istringstream is(line); std::string op; is >> op; std::vector<int> a; int x; while (is >> x) a.push_back(x);
  auto A = [&](size_t i) { return i < a.size() ? a[i] : 0; };
  int acc = 1, skip = 0, ii = 0; std::string thr;
  try {
    if (op == "cexpect") {           // cexpect slot kind ny retk y1 y2 y3 ythrow retv lo hi ord
      int s = A(0);
      if (s < 1 || s > NSLOT || exps[s]) skip = 1;
      else { Cfg& c = cfg[s]; c = Cfg{}; c.kind = A(1); c.ny = A(2); c.retk = A(3); c.y[0] = A(4); c.y[1] = A(5); c.y[2] = A(6); c.ythrow = A(7); c.retv = A(8); c.lo = A(9); c.hi = A(10);
             if (!make_cexp(s, c.kind, c.ny, c.retk, A(11))) skip = 1; }
    } else if (op == "ccall") {      // ccall inst kind
      ii = A(0); int k = A(1);
      if (ii < 1 || ii > NINST || inst[ii].kind) { skip = 1; ii = 0; }
      else {
        switch (k) {
        case 1: inst[ii].e.emplace(mk->ce()); break;
        case 2: inst[ii].l.emplace(mk->cl()); break;
        case 3: inst[ii].g.emplace(mk->cg()); break;
        case 4: inst[ii].v.emplace(mk->cv()); break;
        case 5: inst[ii].lv.emplace(mk->clv()); break;
        default: skip = 1;
        }
        if (!skip) inst[ii].kind = k;
      }
    } else if (op == "resume") {
      ii = A(0);
      if (ii < 1 || ii > NINST || !inst[ii].kind) { skip = 1; ii = 0; }
      else {
        Inst& in = inst[ii];
        switch (in.kind) {
        case 1: if (!in.e->h.done()) in.e->h.resume(); else skip = 1; break;
        case 2: if (!in.l->h.done()) in.l->h.resume(); else skip = 1; break;
        case 3: if (!in.g->h.done()) in.g->h.resume(); else skip = 1; break;
        case 4: if (!in.v->h.done()) in.v->h.resume(); else skip = 1; break;
        case 5: if (!in.lv->h.done()) in.lv->h.resume(); else skip = 1; break;
        }
      }
    } else if (op == "idestroy") {
      int i = A(0);
      if (i < 1 || i > NINST || !inst[i].kind) skip = 1; else inst[i].clear();
    } else if (op == "crelease") {
      if (A(0) >= 1 && A(0) <= NSLOT && exps[A(0)]) exps[A(0)].reset(); else skip = 1;
    } else if (op == "cargs") {      // cargs k a1 .. a15: the positional names _1.._15 inside the coroutine clause evaluated during the call
      int k = A(0);
      ii = NINST;
      if (inst[ii].kind) { skip = 1; ii = 0; }
      else {
        std::unique_ptr<trompeloeil::expectation> e;
        if (k == 1) e = NAMED_REQUIRE_CALL(*mk, ca(trompeloeil::_, trompeloeil::_, trompeloeil::_, trompeloeil::_, trompeloeil::_, trompeloeil::_, trompeloeil::_, trompeloeil::_, trompeloeil::_, trompeloeil::_, trompeloeil::_, trompeloeil::_, trompeloeil::_, trompeloeil::_, trompeloeil::_)).CO_RETURN(_1 * 1 + _2 * 2 + _3 * 3 + _4 * 4 + _5 * 5 + _6 * 6 + _7 * 7 + _8 * 8 + _9 * 9 + _10 * 10 + _11 * 11 + _12 * 12 + _13 * 13 + _14 * 14 + _15 * 15);
        else if (k == 2) e = NAMED_REQUIRE_CALL(*mk, ca(trompeloeil::_, trompeloeil::_, trompeloeil::_, trompeloeil::_, trompeloeil::_, trompeloeil::_, trompeloeil::_, trompeloeil::_, trompeloeil::_, trompeloeil::_, trompeloeil::_, trompeloeil::_, trompeloeil::_, trompeloeil::_, trompeloeil::_)).CO_THROW(std::runtime_error(std::to_string(_1 * 1 + _2 * 2 + _3 * 3 + _4 * 4 + _5 * 5 + _6 * 6 + _7 * 7 + _8 * 8 + _9 * 9 + _10 * 10 + _11 * 11 + _12 * 12 + _13 * 13 + _14 * 14 + _15 * 15)));
        else if (k == 3) e = NAMED_REQUIRE_CALL(*mk, ca(trompeloeil::_, trompeloeil::_, trompeloeil::_, trompeloeil::_, trompeloeil::_, trompeloeil::_, trompeloeil::_, trompeloeil::_, trompeloeil::_, trompeloeil::_, trompeloeil::_, trompeloeil::_, trompeloeil::_, trompeloeil::_, trompeloeil::_)).CO_YIELD(_1 * 1 + _2 * 2 + _3 * 3 + _4 * 4 + _5 * 5 + _6 * 6 + _7 * 7 + _8 * 8 + _9 * 9 + _10 * 10 + _11 * 11 + _12 * 12 + _13 * 13 + _14 * 14 + _15 * 15).CO_RETURN(0);
        else if (k == 4) e = NAMED_REQUIRE_CALL(*mk, ca(trompeloeil::_, trompeloeil::_, trompeloeil::_, trompeloeil::_, trompeloeil::_, trompeloeil::_, trompeloeil::_, trompeloeil::_, trompeloeil::_, trompeloeil::_, trompeloeil::_, trompeloeil::_, trompeloeil::_, trompeloeil::_, trompeloeil::_)).LR_CO_RETURN(_1 * 1 + _2 * 2 + _3 * 3 + _4 * 4 + _5 * 5 + _6 * 6 + _7 * 7 + _8 * 8 + _9 * 9 + _10 * 10 + _11 * 11 + _12 * 12 + _13 * 13 + _14 * 14 + _15 * 15);
        else skip = 1;
        if (!skip) {
          inst[ii].e.emplace(mk->ca(A(1), A(2), A(3), A(4), A(5), A(6), A(7), A(8), A(9), A(10), A(11), A(12), A(13), A(14), A(15))); inst[ii].kind = 1;
          emit(op.c_str(), a, acc, thr, skip, ii);
          inst[ii].clear();            // the coroutine frame goes before the expectation (proviso of C20)
          e.reset();
          return;
        }
      }
    } else if (op == "d12") {
      // witness of known finding D12: a clause of a mocked coroutine with arity >= 1 evaluated after the mock call returned
      auto e = NAMED_REQUIRE_CALL(*mk, cl1(trompeloeil::_)).CO_RETURN(_1 + 1);
      auto t = mk->cl1(41);
      t.h.resume();                  // lazy start: CO_RETURN(_1 + 1) reads the parameter tuple of the finished mock_func
      acc = t.h.done() ? 1 : 0;
    } else skip = 1;
  }
  catch (Fatal const&) { acc = 0; ii = 0; }
  catch (std::exception const& e) { thr = e.what(); }
  catch (...) { thr = "unknown"; }
  emit(op.c_str(), a, acc, thr, skip, ii);
}
static void on_terminate() { static char const m[] = "{\"e\":\"terminate\"}\n"; if (out) { fwrite(m, 1, sizeof m - 1, out); fflush(out); } _exit(42); }
static int run_segment(std::vector<std::string> const& ops) {
  std::set_terminate(on_terminate);
  trompeloeil::set_reporter(
    [](trompeloeil::severity s, char const*, unsigned long, std::string const& msg) { if (!quiet) reps.push_back({s == trompeloeil::severity::fatal ? 0 : 1, msg}); if (s == trompeloeil::severity::fatal) throw Fatal{}; },
    [](char const* m) { if (!quiet) oks.push_back(m); });
  mk = std::make_unique<CMock>();
  for (auto const& l : ops) run_op(l);
  quiet = true;
  for (int i = 1; i <= NINST; ++i) inst[i].clear();
  for (int s = 1; s <= NSLOT; ++s) exps[s].reset();
  mk.reset();
  fputs("{\"e\":\"fin\"}\n", out); fflush(out);
  return 0;
}
}  // namespace cdrv
int main(int argc, char** argv) {
  if (argc < 3) return 2;
  std::ifstream in(argv[1]);
  std::vector<std::pair<std::string, std::vector<std::string>>> segs; std::string line;
  while (std::getline(in, line)) { if (line.empty() || line[0] == '#') continue; if (line.compare(0, 4, "seg ") == 0) segs.push_back({line.substr(4), {}}); else if (!segs.empty()) segs.back().second.push_back(line); }
  FILE* o = std::fopen(argv[2], "w"); if (!o) return 2;
  std::string errpath = std::string(argv[2]) + ".err";
  for (auto const& sg : segs) {
    std::fprintf(o, "{\"e\":\"seg\",\"id\":\"%s\"}\n", sg.first.c_str()); std::fflush(o);
    pid_t pid = fork();
    if (pid == 0) { int fd = open(errpath.c_str(), O_WRONLY | O_CREAT | O_TRUNC, 0644); if (fd >= 0) { dup2(fd, 2); close(fd); } cdrv::out = o; alarm(20); int rc = cdrv::run_segment(sg.second); std::fflush(o); std::exit(rc); }
    int st = 0; waitpid(pid, &st, 0);
    int code = WIFEXITED(st) ? WEXITSTATUS(st) : 0, sig = WIFSIGNALED(st) ? WTERMSIG(st) : 0;
    std::string san; { std::ifstream e(errpath); std::string l; int n = 0; while (std::getline(e, l) && n < 300) { ++n; if (l.find("ERROR: ") != std::string::npos || l.find("runtime error:") != std::string::npos || l.find("SUMMARY:") != std::string::npos || l.find("    #0 ") != std::string::npos || l.find("    #1 ") != std::string::npos || l.find("    #2 ") != std::string::npos) { if (san.size() < 1200) { san += l; san += " | "; } } } }
    std::fseek(o, 0, SEEK_END);
    std::fprintf(o, "{\"e\":\"endseg\",\"id\":\"%s\",\"exit\":%d,\"sig\":%d,\"san\":\"%s\"}\n", sg.first.c_str(), code, sig, cdrv::jesc(san).c_str()); std::fflush(o);
  }
  std::fclose(o); unlink(errpath.c_str());
  return 0;
}
